"""Observer for the store engine: the abstract projection of the real database
(what spec/WnStore.tla calls a state), canonical per-lexicon dumps with row ids
replaced by natural keys, integrity audits, and fault injection helpers."""
from __future__ import annotations

import hashlib
import json
import sqlite3

import wn
import wn._db
from wn.util import ProgressHandler

# natural key of a row of each table (row ids never enter a trace)
NAT = {
    'lexicons': "SELECT rowid, id || ':' || version FROM lexicons",
    'ilis': 'SELECT rowid, id FROM ilis',
    'ili_statuses': 'SELECT rowid, status FROM ili_statuses',
    'relation_types': 'SELECT rowid, type FROM relation_types',
    'lexfiles': 'SELECT rowid, name FROM lexfiles',
    'entries': "SELECT e.rowid, l.id || ':' || l.version || '/' || e.id FROM entries e "
               "JOIN lexicons l ON l.rowid = e.lexicon_rowid",
    'senses': "SELECT s.rowid, l.id || ':' || l.version || '/' || s.id FROM senses s "
              "JOIN lexicons l ON l.rowid = s.lexicon_rowid",
    'synsets': "SELECT s.rowid, l.id || ':' || l.version || '/' || s.id FROM synsets s "
               "JOIN lexicons l ON l.rowid = s.lexicon_rowid",
    'syntactic_behaviours': "SELECT s.rowid, l.id || ':' || l.version || '/' || s.frame "
                            "FROM syntactic_behaviours s JOIN lexicons l ON l.rowid = s.lexicon_rowid",
    'forms': "SELECT f.rowid, l.id || ':' || l.version || '/' || e.id || '/' || f.form || '/' "
             "|| ifnull(f.script, '') FROM forms f JOIN entries e ON e.rowid = f.entry_rowid "
             "JOIN lexicons l ON l.rowid = e.lexicon_rowid",
}
# tables without a lexicon_rowid column: the column whose parent owns the row
PARENT = {'pronunciations': 'form_rowid', 'tags': 'form_rowid',
          'adjpositions': 'sense_rowid', 'proposed_ilis': 'synset_rowid',
          'syntactic_behaviour_senses': 'syntactic_behaviour_rowid',
          'lexicon_dependencies': 'dependent_rowid',
          'lexicon_extensions': 'extension_rowid'}
SHARED = ('ilis', 'ili_statuses', 'relation_types', 'lexfiles')


def conn() -> sqlite3.Connection:
    return wn._db.connect()


def _tables(c):
    return [r[0] for r in c.execute(
        "SELECT name FROM sqlite_master WHERE type='table' ORDER BY name")]


def _fks(c, table):
    return {r[3]: r[2] for r in c.execute(f'PRAGMA foreign_key_list({table})')}


def _val(v):
    if isinstance(v, bytes):
        return v.decode('utf-8', 'replace')
    if isinstance(v, dict):
        return json.dumps(v, sort_keys=True, ensure_ascii=False)
    return v


def canonical_dump(c=None, timeout: float = 5.0, connect: bool = True) -> dict:
    """{lexicon spec or '*shared*': {table: sorted rows}} with foreign keys
    replaced by natural keys; 'dangling' lists references to missing rows."""
    if connect:
        c = c or conn()
    raw = sqlite3.connect(str(wn.config.database_path), timeout=timeout)
    try:
        nat = {t: dict(raw.execute(q).fetchall()) for t, q in NAT.items()}
        owner_of = {}   # (table, rowid) -> lexicon spec, for parents
        for t in ('entries', 'senses', 'synsets', 'syntactic_behaviours', 'forms'):
            col = 'lexicon_rowid'
            if t == 'forms':   # a form belongs to the lexicon of its entry
                q = ('SELECT f.rowid, e.lexicon_rowid FROM forms f '
                     'JOIN entries e ON e.rowid = f.entry_rowid')
            else:
                q = f'SELECT rowid, {col} FROM {t}'
            for rid, lid in raw.execute(q):
                owner_of[(t, rid)] = nat['lexicons'].get(lid, f'?lex{lid}')
        out = {}
        dangling = []
        for t in _tables(raw):
            fks = _fks(raw, t)
            cols = [r[1] for r in raw.execute(f'PRAGMA table_info({t})')]
            has_rowid_pk = 'rowid' in cols
            sel = ', '.join(cols)
            for row in raw.execute(f'SELECT {sel} FROM {t}'):
                rec = {}
                owner = '*shared*'
                for col, v in zip(cols, row):
                    if col == 'rowid' or (t, col) == ('lexicon_dependencies', 'provider_rowid'):
                        continue   # the dependency link is state, observed separately
                    if col in fks and v is not None:
                        ref = fks[col]
                        k = nat.get(ref, {}).get(v)
                        if k is None:
                            dangling.append(f'{t}.{col}={v}->{ref}')
                            k = f'?{ref}#{v}'
                        rec[col] = k
                    else:
                        rec[col] = _val(v)
                if t == 'lexicons':
                    owner = f'{row[cols.index("id")]}:{row[cols.index("version")]}'
                elif 'lexicon_rowid' in cols:
                    owner = rec['lexicon_rowid']
                elif t in PARENT:
                    pcol = PARENT[t]
                    pv = row[cols.index(pcol)]
                    if fks[pcol] == 'lexicons':
                        owner = nat['lexicons'].get(pv, f'?lex{pv}')
                    else:
                        owner = owner_of.get((fks[pcol], pv), f'?{fks[pcol]}#{pv}')
                out.setdefault(owner, {}).setdefault(t, []).append(
                    json.dumps(rec, sort_keys=True, ensure_ascii=False))
        for o in out.values():
            for rows in o.values():
                rows.sort()
        return {'dump': out, 'dangling': sorted(dangling)}
    finally:
        raw.close()


def sha(obj) -> str:
    return hashlib.sha256(json.dumps(obj, sort_keys=True, ensure_ascii=False)
                          .encode('utf-8')).hexdigest()[:16]


def raw_sha() -> str:
    """Digest of every row of every table, row ids included: 'exactly as it was'."""
    raw = sqlite3.connect(str(wn.config.database_path))
    try:
        h = hashlib.sha256()
        for t in _tables(raw):
            cols = [r[1] for r in raw.execute(f'PRAGMA table_info({t})')]
            order = 'rowid' if 'rowid' in cols else ', '.join(cols)
            try:
                rows = raw.execute(f'SELECT rowid, * FROM {t} ORDER BY rowid').fetchall()
            except sqlite3.OperationalError:
                rows = raw.execute(f'SELECT * FROM {t} ORDER BY {order}').fetchall()
            h.update(repr((t, rows)).encode('utf-8'))
        return h.hexdigest()[:16]
    finally:
        raw.close()


# Synset objects obtained at an earlier observation and kept: [spec, id] -> Synset.  What they
# report about their ILI must be what a fresh look-up reports (entities are views of the
# database, not snapshots of it).  Objects of a lexicon that left the database are dropped.
_held: dict = {}
_held_db = [None]


def held_views(inst) -> list:
    from harness import wnenv
    gen = (str(wn.config.database_path), wnenv.DB_GENERATION[0])
    if _held_db[0] != gen:
        _held.clear()
        _held_db[0] = gen
    for k in [k for k in _held if k[0] not in inst]:
        del _held[k]
    rows = []

    def ili_view(y):
        i = y.ili
        return ['~', '~', '~'] if i is None else [i.id or '~', i.status, i.definition() if i.definition() is not None else '~']
    try:
        for spec in inst:
            fresh = {y.id: y for y in wn.Wordnet(spec, expand='').synsets()}
            for yid, y in fresh.items():
                old = _held.get((spec, yid))
                if old is not None:
                    rows.append([spec, yid, ili_view(old), ili_view(y)])
                else:
                    y.ili                     # looked at once, then kept
                    _held[(spec, yid)] = y
    except Exception as e:   # noqa: BLE001
        rows.append(['!' + type(e).__name__, '~', [], ['~']])
    return rows


def observe(own_extras: dict | None = None) -> dict:
    """The abstract state of the database plus audits and digests."""
    conn()   # make sure the file exists
    raw = sqlite3.connect(str(wn.config.database_path))
    try:
        inst = [r[0] for r in raw.execute(
            "SELECT id || ':' || version FROM lexicons ORDER BY rowid")]
        ilis = sorted([i, s, d if d is not None else '~'] for i, s, d in raw.execute(
            'SELECT i.id, s.status, i.definition FROM ilis i '
            'LEFT JOIN ili_statuses s ON s.rowid = i.status_rowid'))
        ilis = [[i, s if s is not None else '?', d] for i, s, d in ilis]
        look = {'rel': sorted(r[0] for r in raw.execute('SELECT type FROM relation_types')),
                'lexfile': sorted(r[0] for r in raw.execute('SELECT name FROM lexfiles')),
                'status': sorted(r[0] for r in raw.execute('SELECT status FROM ili_statuses'))}
        links, badlinks = [], []
        for dep, pid, pver, prow, pspec in raw.execute(
                "SELECT d.id || ':' || d.version, x.provider_id, x.provider_version, "
                "x.provider_rowid, (SELECT p.id || ':' || p.version FROM lexicons p "
                "WHERE p.rowid = x.provider_rowid) FROM lexicon_dependencies x "
                "JOIN lexicons d ON d.rowid = x.dependent_rowid"):
            if prow is not None:
                if pspec != f'{pid}:{pver}':
                    badlinks.append([dep, f'{pid}:{pver}', str(pspec)])
                links.append([dep, f'{pid}:{pver}'])
        exts = []
        for e, bid, bver, brow, bspec in raw.execute(
                "SELECT e.id || ':' || e.version, x.base_id, x.base_version, x.base_rowid, "
                "(SELECT b.id || ':' || b.version FROM lexicons b WHERE b.rowid = x.base_rowid) "
                "FROM lexicon_extensions x JOIN lexicons e ON e.rowid = x.extension_rowid"):
            if bspec != f'{bid}:{bver}':
                badlinks.append([e, f'{bid}:{bver}', str(bspec)])
            exts.append([e, f'{bid}:{bver}'])
        # tag / pronunciation rows on forms owned by each lexicon
        formrows = {}
        for spec, n in raw.execute(
                "SELECT l.id || ':' || l.version, count(*) FROM "
                "(SELECT form_rowid FROM tags UNION ALL SELECT form_rowid FROM pronunciations) t "
                "JOIN forms f ON f.rowid = t.form_rowid JOIN entries e ON e.rowid = f.entry_rowid "
                "JOIN lexicons l ON l.rowid = e.lexicon_rowid GROUP BY 1"):
            formrows[spec] = n
        foreign = sorted([s, formrows.get(s, 0) - (own_extras or {}).get(s, 0)] for s in inst)
        fk = [list(map(str, r)) for r in raw.execute('PRAGMA foreign_key_check')]
        integ = [r[0] for r in raw.execute('PRAGMA integrity_check')]
    finally:
        raw.close()
    cd = canonical_dump()
    digests = sorted([spec, sha({t: rows for t, rows in tabs.items()
                                 if t not in ('tags', 'pronunciations')})]
                     for spec, tabs in cd['dump'].items() if spec != '*shared*')
    orphans = sorted(s for s in cd['dump'] if s != '*shared*' and s not in inst)
    # through the public API (a broken database must show up as an observation,
    # not as a crash of the observer)
    api = []
    try:
        for lx in wn.lexicons():
            try:
                req = lx.requires()
                api.append([lx.specifier(),
                            sorted([k, v is not None and v.specifier() == k]
                                   for k, v in req.items()),
                            lx.extends().specifier() if lx.extends() else '~',
                            sorted(x.specifier() for x in lx.extensions(depth=-1))])
            except Exception as e:   # noqa: BLE001
                api.append([lx.specifier(), [], '!' + type(e).__name__, []])
    except Exception as e:   # noqa: BLE001
        api.append(['!' + type(e).__name__, [], '~', []])
    try:
        api_ilis = sorted([i.id or '~', i.status,
                           i.definition() if i.definition() is not None else '~']
                          for i in wn.ilis())
    except Exception as e:   # noqa: BLE001
        api_ilis = [['!' + type(e).__name__, '~', '~']]
    # wn.ilis(status=s) and Wordnet.ili(id): the same inventory, filtered
    by_status = []
    try:
        for s_ in sorted({r[1] for r in api_ilis} | {'presupposed', 'proposed', 'active', 'no-such-status'}):
            by_status.append([s_, sorted([i.id or '~', i.status,
                                          i.definition() if i.definition() is not None else '~']
                                         for i in wn.ilis(status=s_))])
    except Exception as e:   # noqa: BLE001
        by_status = [['!' + type(e).__name__, []]]
    by_id = []
    try:
        w_ = wn.Wordnet()
        for i_ in sorted({r[0] for r in api_ilis if r[0] != '~'} | {'i-none'}):
            try:
                x = w_.ili(i_)
                by_id.append([i_, 'ok', x.id, x.status, x.definition() if x.definition() is not None else '~'])
            except wn.Error:
                by_id.append([i_, 'err', '~', '~', '~'])
    except Exception as e:   # noqa: BLE001
        by_id = [['!' + type(e).__name__, 'exc', '~', '~', '~']]
    return {'api_ilis': api_ilis, 'ilis_by_status': by_status, 'ilis_by_id': by_id, 'held': held_views(inst),
            'inst': inst, 'ilis': ilis, 'look': look, 'links': sorted(links),
            'exts': sorted(exts), 'foreign': foreign, 'digests': digests,
            'api': sorted(api),
            'audit': {'fk': fk, 'integrity': integ, 'dangling': cd['dangling'],
                      'badlinks': badlinks, 'orphans': orphans},
            'rawsha': raw_sha()}


def view() -> dict:
    """What ANOTHER connection sees right now (used from inside a progress callback
    while wn's own connection has its transaction open): the committed state, or
    'busy' when SQLite does not let a reader in at this moment."""
    try:
        raw = sqlite3.connect(str(wn.config.database_path), timeout=0)
        try:
            inst = [r[0] for r in raw.execute(
                "SELECT id || ':' || version FROM lexicons ORDER BY rowid")]
            ilis = sorted([i, s if s is not None else '?', d if d is not None else '~']
                          for i, s, d in raw.execute(
                              'SELECT i.id, s.status, i.definition FROM ilis i '
                              'LEFT JOIN ili_statuses s ON s.rowid = i.status_rowid'))
            look = {'rel': sorted(r[0] for r in raw.execute('SELECT type FROM relation_types')),
                    'lexfile': sorted(r[0] for r in raw.execute('SELECT name FROM lexfiles')),
                    'status': sorted(r[0] for r in raw.execute('SELECT status FROM ili_statuses'))}
        finally:
            raw.close()
        cd = canonical_dump(timeout=0, connect=False)
    except sqlite3.OperationalError as e:
        return {'busy': str(e)[:40]}
    digests = sorted([spec, sha({t: rows for t, rows in tabs.items()
                                 if t not in ('tags', 'pronunciations')})]
                     for spec, tabs in cd['dump'].items() if spec != '*shared*')
    return {'inst': inst, 'ilis': ilis, 'look': look, 'digests': digests,
            'dangling': cd['dangling']}


def watching_handler(views: list, counter: list):
    """A ProgressHandler subclass that looks at the database through a second
    connection at every callback (consecutive equal views are merged)."""
    class H(ProgressHandler):
        def _tick(self, name):
            counter[0] += 1
            v = view()
            if views and views[-1]['v'] == v:
                views[-1]['to'] = counter[0]
            else:
                views.append({'from': counter[0], 'to': counter[0], 'v': v})

        def update(self, n=1, force=False):
            super().update(n, force)
            self._tick('update')

        def set(self, **kw):
            self.kwargs.update(**kw)
            self._tick('set')

        def flash(self, message):
            self._tick('flash')

        def close(self):
            self._tick('close')
    return H


def dying_handler(k: int, counter: list):
    """A ProgressHandler subclass whose k-th callback kills the process outright
    (no exception handler, no rollback, no close: what a power cut leaves)."""
    import os

    class H(ProgressHandler):
        def _tick(self, name):
            counter[0] += 1
            if counter[0] == k:
                os._exit(77)

        def update(self, n=1, force=False):
            super().update(n, force)
            self._tick('update')

        def set(self, **kw):
            self.kwargs.update(**kw)
            self._tick('set')

        def flash(self, message):
            self._tick('flash')
    return H


# ---------------------------------------------------------------------------
# fault injection
# ---------------------------------------------------------------------------

class InjectedFault(Exception):
    pass


def faulty_handler(k: int | None, counter: list, where: str = 'any'):
    """A ProgressHandler subclass whose k-th callback (update/set/flash, counted
    over all instances) raises InjectedFault; k=None only counts."""
    class H(ProgressHandler):
        def _tick(self, name):
            counter[0] += 1
            if k is not None and counter[0] == k:
                counter.append(name)
                raise InjectedFault(f'callback {k} ({name})')

        def update(self, n=1, force=False):
            super().update(n, force)
            self._tick('update')

        def set(self, **kw):
            self.kwargs.update(**kw)
            self._tick('set')

        def flash(self, message):
            self._tick('flash')

        def close(self):
            if where == 'close':
                self._tick('close')
    return H


WRITE_ACTIONS = {sqlite3.SQLITE_INSERT, sqlite3.SQLITE_UPDATE, sqlite3.SQLITE_DELETE}


def deny_nth_write(n: int | None, counter: list):
    """Authorizer denying the n-th write authorisation (n=None only counts)."""
    def auth(action, a1, a2, db, trig):
        if action in WRITE_ACTIONS:
            counter[0] += 1
            if n is not None and counter[0] == n:
                counter.append(f'{action}:{a1}')
                return sqlite3.SQLITE_DENY
        return sqlite3.SQLITE_OK
    return auth
