"""Hypernym-graph cases shared by C11 / C13 / C14 / C15 / C16.

Exhaustive small graphs are the states TLC explored in MC_Taxonomy (emitted by
the model checker and replayed on the code); larger ones are random."""
from __future__ import annotations

import itertools
import random

from harness.core import run_tlc, MachineryError


def tlc_graphs(n: int) -> list:
    """All labelled digraphs on n nodes: the states TLC explored."""
    cfg = 'MC_Taxonomy_emit.cfg' if n == 3 else f'MC_Taxonomy_emit{n}.cfg'
    r = run_tlc('MC_Taxonomy', cfg, workers=1, timeout=3600)
    if not r.ok:
        raise MachineryError('TLC emit failed:\n' + r.out[-2000:])
    gs = [g for g in r.printed() if isinstance(g, dict) and 'hyp' in g]
    if len(gs) != 2 ** (n * n):
        raise MachineryError(f'TLC emitted {len(gs)} graphs for N={n}')
    return gs


ADVERSARIAL = [
    # (n, hyp edges) -- diamonds, two LCS at different distances, cycles, ...
    (4, [(1, 2), (1, 3), (2, 4), (3, 4)]),                      # diamond
    (5, [(1, 2), (1, 3), (2, 4), (3, 4), (4, 5)]),              # diamond + stem
    (6, [(1, 3), (1, 4), (2, 3), (2, 4), (3, 5), (4, 6)]),      # two LCS, separate roots
    (6, [(1, 3), (3, 4), (1, 5), (2, 4), (2, 5), (4, 6), (5, 6)]),  # 2 LCS, different distances
    (7, [(1, 2), (2, 3), (3, 7), (1, 4), (4, 7), (5, 3), (5, 6), (6, 4)]),
    (3, [(1, 2), (2, 1), (3, 1)]),                               # 2-cycle with tail
    (3, [(1, 2), (2, 3), (3, 1)]),                               # 3-cycle
    (4, [(1, 1), (2, 1), (3, 2), (4, 2)]),                       # self-loop on a root
    (5, [(1, 2), (2, 3), (3, 2), (4, 3), (5, 4)]),               # cycle in the middle
    (4, [(1, 2), (3, 4)]),                                       # disconnected
    (6, [(2, 1), (3, 1), (4, 2), (4, 3), (5, 4), (6, 4)]),       # deeper convergence
    (7, [(2, 1), (3, 2), (4, 3), (5, 4), (6, 5), (7, 6)]),       # chain
    (6, [(1, 2), (1, 3), (1, 4), (2, 5), (3, 5), (4, 5), (5, 6)]),  # triple convergence
    (5, [(1, 3), (2, 3), (1, 4), (2, 4), (3, 5), (4, 5), (3, 4)]),
    # two roots; the way over a simulated root (1-2-ROOT-6) is shorter than the real one (1-3-4-5-6)
    (6, [(1, 2), (1, 3), (3, 4), (4, 5), (5, 6)]),
    (7, [(1, 2), (1, 3), (3, 4), (4, 5), (5, 6), (7, 6)]),
]


def finish(g: dict, rng: random.Random, idn: int, *, pos='n', hypo='reverse',
           inst=0.0) -> dict:
    """Complete a bare graph {'n', 'hyp'} into a case."""
    n = g['n']
    hyp = []
    for e in g['hyp']:
        t = 'instance_hypernym' if rng.random() < inst else 'hypernym'
        hyp.append([e[0], e[1], t])
    if pos == 'mixed':
        poss = [rng.choice(['n', 'n', 'a', 's', 'v']) for _ in range(n)]
    elif pos == 'as':
        poss = [rng.choice(['a', 's']) for _ in range(n)]
    else:
        poss = [pos] * n
    if hypo == 'reverse':
        ho = [[e[1], e[0], 'instance_hyponym' if e[2] == 'instance_hypernym' else 'hyponym']
              for e in hyp]
    else:   # independent: hyponym relations need not mirror hypernyms
        ho = [[a, b, rng.choice(['hyponym', 'instance_hyponym'])]
              for a in range(1, n + 1) for b in range(1, n + 1)
              if rng.random() < 0.25]
    return {'id': idn, 'n': n, 'hyp': hyp, 'hypo': ho, 'pos': poss}


def random_graph(rng: random.Random, n: int, density: float, acyclic: bool) -> dict:
    edges = []
    for a in range(1, n + 1):
        for b in range(1, n + 1):
            if acyclic and a >= b:
                continue
            if rng.random() < density:
                edges.append([a, b])
    if acyclic:
        perm = list(range(1, n + 1))
        rng.shuffle(perm)
        edges = [[perm[a - 1], perm[b - 1]] for a, b in edges]
    return {'n': n, 'hyp': edges}


def cases(tier: str, seed: int, *, exhaustive3=True, n4=0, nrandom=0,
          maxn=8, pos_variants=True) -> list:
    rng = random.Random(seed * 7919 + 13)
    out = []
    k = 0

    def add(g, **kw):
        nonlocal k
        k += 1
        out.append(finish(g, rng, k, **kw))
    if exhaustive3:
        for g in tlc_graphs(3):
            add(g)
        for n in (1, 2):
            pairs = [(a, b) for a in range(1, n + 1) for b in range(1, n + 1)]
            for r in range(len(pairs) + 1):
                for es in itertools.combinations(pairs, r):
                    add({'n': n, 'hyp': [list(e) for e in es]})
    if pos_variants:
        g3 = [g for g in (out[:512] if exhaustive3 else [])]
        for g in rng.sample(g3, min(len(g3), 150)):
            add({'n': g['n'], 'hyp': [e[:2] for e in g['hyp']]}, pos='mixed', inst=0.3)
        for g in rng.sample(g3, min(len(g3), 60)):
            add({'n': g['n'], 'hyp': [e[:2] for e in g['hyp']]}, pos='as', hypo='indep')
    for n, es in ADVERSARIAL:
        add({'n': n, 'hyp': [list(e) for e in es]})
        add({'n': n, 'hyp': [list(e) for e in es]}, pos='as', inst=0.5)
    for _ in range(n4):
        es = [[a, b] for a in range(1, 5) for b in range(1, 5) if rng.random() < rng.choice([0.2, 0.4, 0.6])]
        add({'n': 4, 'hyp': es}, pos=rng.choice(['n', 'n', 'mixed']), inst=0.2,
            hypo=rng.choice(['reverse', 'reverse', 'indep']))
    for _ in range(nrandom):
        n = rng.randint(5, maxn)
        g = random_graph(rng, n, rng.choice([0.15, 0.25, 0.35]), rng.random() < 0.7)
        add(g, pos=rng.choice(['n', 'n', 'mixed']), inst=0.2)
    return out
