"""Driver for the query engine (C04 C10 C11 C12): a world (harness/worlds.py
tables) is installed lexicon by lexicon, then for every Wordnet configuration a
battery of public query / navigation / relation calls is recorded.  Entities are
named [owner specifier, id]; row ids never appear."""
from __future__ import annotations

import json
import warnings

import wn
import wn.taxonomy

from harness import lmfgen
from harness.worlds import World
from harness.wnenv import fresh_db, base_dir, main_loop, exc_name, JobTimeout, limit

_spec_cache: dict = {}


def lexspec(lexid) -> str:
    if lexid not in _spec_cache:
        from wn._queries import get_lexicon
        row = get_lexicon(lexid)
        _spec_cache[lexid] = f'{row[1]}:{row[6]}'
    return _spec_cache[lexid]


def name(x):
    """[owner, id] of a Word / Sense / Synset; placeholders are ['*', ili]"""
    if isinstance(x, wn.Synset) and x.id == '*INFERRED*':
        i = x.ili
        return ['*', i.id if i is not None and i.id else '~']
    return [x.lexicon().specifier(), x.id]


def call(f, *a, **k):
    try:
        return 'ok', f(*a, **k)
    except JobTimeout:
        raise
    except wn.Error:
        return 'err', None
    except Exception as e:
        return 'exc:' + exc_name(e), None


def names(st_v):
    st, v = st_v
    return [st, [name(x) for x in v] if st == 'ok' else []]


def one(st_v):
    st, v = st_v
    return [st] + (name(v) if st == 'ok' else ['~', '~'])


def relmap(st_v):
    st, v = st_v
    if st != 'ok':
        return [st, []]
    rows = []
    for rel, tgt in v.items():
        rows.append([rel.name, rel.source_id, rel.target_id, rel.lexicon().specifier(),
                     rel.subtype if rel.subtype is not None else '~',
                     (rel.metadata() or {}).get('note', '~'), name(tgt)])
    return [st, rows]


def rels(st_v):
    st, v = st_v
    if st != 'ok':
        return [st, []]
    return [st, [[k, [name(x) for x in xs]] for k, xs in v.items()]]


def paths(st_v):
    st, v = st_v
    return [st, [[name(x) for x in p] for p in v] if st == 'ok' else []]


def end_paths(x, a, synsets):
    """relation_paths(*a, end=e) for a reachable, a last-reached and an arbitrary synset"""
    st, cl = call(lambda: list(x.closure(*a)))
    ends = []
    if st == 'ok' and cl:
        ends += [cl[0], cl[-1]]
    ends += synsets[:1]
    out, seen = [], set()
    for e in ends:
        k = tuple(name(e))
        if k in seen:
            continue
        seen.add(k)
        out.append([name(e), paths(call(lambda: list(x.relation_paths(*a, end=e))))])
    return out


def install(tables):
    w = World()
    for k, v in tables.items():
        setattr(w, k, v)
    _spec_cache.clear()
    fresh_db('q')
    for k, l in enumerate(tables['lex']):
        p = base_dir() / f'w{k}.xml'
        p.write_text(lmfgen.to_xml(w.resource([l[0]])), encoding='utf-8')
        wn.add(p, progress_handler=None)
    return w


def battery(tables, cfg, want, argsets):
    """everything recorded for one Wordnet configuration"""
    o = {'cfg': cfg}
    kw = {}
    if cfg['lexicon'] != '~':
        kw['lexicon'] = cfg['lexicon']
    if cfg['lang'] != '~':
        kw['lang'] = cfg['lang']
    if cfg['expand'] != '~':
        kw['expand'] = '' if cfg['expand'] == '-' else cfg['expand']
    with warnings.catch_warnings(record=True) as caught:
        warnings.simplefilter('always')
        st, w = call(wn.Wordnet, **kw)
    o['st'] = st
    o['warned'] = sorted(set(
        s for c in caught if issubclass(c.category, wn.WnWarning)
        for s in str(c.message).split(': ', 1)[-1].split()))
    if st != 'ok':
        o.update({'lexicons': [], 'expanded': [], 'W': [], 'S': [], 'Y': [], 'desc': [], 'A': [], 'ident': [],
                  'LK': [], 'mlists': [], 'RT': [], 'TX': [], 'FQ': [],
                  'TS': [], 'TW': [],
                  'words': [], 'senses': [], 'synsets': []})
        return o
    o['lexicons'] = [lx.specifier() for lx in w.lexicons()]
    o['expanded'] = [lx.specifier() for lx in w.expanded_lexicons()]
    # Lexicon.describe(): the counts it prints
    import re as _re
    o['desc'] = []
    for lx in w.lexicons():
        st, txt = call(lx.describe)
        row = [lx.specifier(), st]
        if st == 'ok':
            def counts(label):
                m = _re.search(r'^\s*%s\s*:\s*(\d+)(?: \((.*)\))?\s*$' % label, txt, _re.M)
                if not m:
                    return [-1, []]
                by = []
                if m.group(2):
                    by = [[p.split(':')[0].strip(), int(p.split(':')[1])] for p in m.group(2).split(',') if ':' in p]
                return [int(m.group(1)), by]
            row += [counts('Words'), counts('Senses')[0], counts('Synsets'), counts('ILIs')[0],
                    txt.splitlines()[0]]
        else:
            row += [[-1, []], -1, [-1, []], -1, '~']
        o['desc'].append(row)
    words, senses, synsets = w.words(), w.senses(), w.synsets()
    o['words'] = [name(x) for x in words]
    o['senses'] = [name(x) for x in senses]
    o['synsets'] = [name(x) for x in synsets]
    # look-ups by identifier, through the Wordnet and through the module-level functions
    mkw = {k: v for k, v in kw.items() if k != 'expand'}
    ids = {'word': sorted({e[1] for e in tables['entries']}) + ['no-such-id'],
           'sense': sorted({e[1] for e in tables['senses']}) + ['no-such-id'],
           'synset': sorted({e[1] for e in tables['synsets']}) + ['no-such-id']}
    o['LK'] = []
    for kind in ('word', 'sense', 'synset'):
        for i in ids[kind]:
            o['LK'].append([kind, i, one(call(getattr(w, kind), i)),
                            one(call(getattr(wn, kind), i, **mkw))])
    # roots / leaves per part of speech (a and s are merged by the taxonomy functions)
    o['TX'] = [[pos, names(call(wn.taxonomy.roots, w, pos)), names(call(wn.taxonomy.leaves, w, pos))]
               for pos in ('n', 'v', 'a', 's')]
    o['mlists'] = [names(call(wn.words, **mkw)), names(call(wn.senses, **mkw)),
                   names(call(wn.synsets, **mkw))]
    # entities found by a form search (exactly, and only after normalisation) are the same
    # entities as the listed ones: what they report must not depend on the route
    listed_y = {tuple(name(x)): x for x in synsets}
    listed_s = {tuple(name(x)): x for x in senses}
    o['RT'] = []
    lemmas = sorted({e[3] for e in tables['entries']})[:5]
    # what a form search finds (as stored, and only through normalisation): FQ rows
    o['FQ'] = [[q, names(call(w.words, q)), names(call(w.senses, q)), names(call(w.synsets, q))]
               for lem in lemmas for q in (lem, lem.upper(), lem.capitalize())]
    for lem in lemmas:
        for q in (lem, lem.upper()):
            st_, found = call(w.synsets, q)
            for y in (found if st_ == 'ok' else []):
                k_ = tuple(name(y))
                if k_ in listed_y:
                    o['RT'].append(['Y', q] + name(y) + [names(call(y.get_related)),
                                                         names(call(listed_y[k_].get_related)),
                                                         names(call(y.senses)), names(call(listed_y[k_].senses))])
            st_, found = call(w.senses, q)
            for x in (found if st_ == 'ok' else []):
                k_ = tuple(name(x))
                if k_ in listed_s:
                    o['RT'].append(['S', q] + name(x) + [one(call(x.synset)), one(call(listed_s[k_].synset)),
                                                         names(call(x.get_related)),
                                                         names(call(listed_s[k_].get_related))])
    o['W'] = []
    for x in words:
        fs = x.forms()
        o['W'].append(name(x) + [names(call(x.senses)), names(call(x.synsets)),
                                 names(call(x.derived_words)),
                                 [str(f) for f in fs],
                                 sorted(t.tag for t in fs[0].tags()) if fs else []])
    o['S'] = []
    for x in senses:
        row = name(x) + [one(call(x.word)), one(call(x.synset))]
        if 'rel' in want:
            row += [rels(call(x.relations)), relmap(call(x.relation_map)),
                    [[a, names(call(x.get_related, *a)), names(call(x.get_related_synsets, *a)),
                      names(call(lambda: list(x.closure(*a))))] for a in argsets['sense']]]
        o['S'].append(row)
    # objects reached by different routes that denote the same stored entity are
    # equal and hash alike; different entities are unequal
    ident = []
    wl = {tuple(name(x)): x for x in words}
    yl = {tuple(name(x)): x for x in synsets}
    for x in senses:
        for st_v, pool in ((call(x.word), wl), (call(x.synset), yl)):
            st, v = st_v
            if st == 'ok' and tuple(name(v)) in pool:
                u = pool[tuple(name(v))]
                others = [z for k, z in pool.items() if k != tuple(name(v))]
                ident.append([v == u, hash(v) == hash(u), v in {u}, {v: 1}.get(u) == 1,
                              all(v != z for z in others), not (v != u)])
    o['ident'] = ident
    # sense and word translation (images of synset translation)
    o['TS'] = []
    o['TW'] = []
    targets0 = cfg.get('translate', [])
    for x in senses:
        o['TS'].append(name(x) + [[[t, names(call(x.translate, lexicon=t))] for t in targets0]])
    for x in words:
        rows = []
        for t in targets0[:2]:
            st, d = call(x.translate, lexicon=t)
            rows.append([t, st, [[name(k_), [name(v_) for v_ in vs]] for k_, vs in d.items()] if st == 'ok' else []])
        o['TW'].append(name(x) + [rows])
    # texts attached to senses / synsets (examples, first definition, counts)
    o['A'] = []
    for x in senses:
        o['A'].append(['S'] + name(x) + [list(x.examples()), '~', [int(c) for c in x.counts()]])
    for x in synsets:
        d = x.definition()
        o['A'].append(['Y'] + name(x) + [list(x.examples()), d if d is not None else '~', []])
    o['Y'] = []
    targets = cfg.get('translate', [])
    for x in synsets:
        row = name(x) + [names(call(x.senses)), names(call(x.words)),
                         [x._ili or '~']]
        if 'rel' in want:
            row += [rels(call(x.relations)), relmap(call(x.relation_map)),
                    [[a, names(call(x.get_related, *a)),
                      names(call(lambda: list(x.closure(*a)))),
                      paths(call(lambda: list(x.relation_paths(*a)))),
                      end_paths(x, a, synsets)] for a in argsets['synset']],
                    [names(call(x.hypernyms)), names(call(x.hyponyms)),
                     names(call(x.holonyms)), names(call(x.meronyms))]]
        else:
            row += [['ok', []], ['ok', []], [], []]
        row += [[[t, names(call(x.translate, lexicon=t))] for t in targets]]
        lst, lv = call(x.lemmas)
        lem_row = [lst, [str(f) for f in lv] if lst == 'ok' else []]
        if 'exp' in want:
            # follow placeholders two more steps
            st2, tg = call(x.get_related)
            ph = []
            if st2 == 'ok':
                for t in tg:
                    if t.id == '*INFERRED*':
                        ph.append([name(t), relmap(call(t.relation_map)),
                                   names(call(t.hypernyms))])
            row += [ph, paths(call(x.hypernym_paths))]
        else:
            row += [[], ['ok', []]]
        row += [lem_row]
        o['Y'].append(row)
    return o


def handle(job):
    out = []
    for case in job['cases']:
        try:
            with limit(case.get('timeout', 15)):
                install(case['tables'])
                obs = [battery(case['tables'], cfg, case['want'], case['argsets'])
                       for cfg in case['configs']]
                rec = {'id': case['id'], 'tables': case['tables'], 'obs': obs}
                # C04: results of a restricted Wordnet must not change when lexicons
                # outside the selection (and expand set) come and go
                if case.get('perturb'):
                    rec['after'] = []
                    tabs = case['tables']
                    clean = [True] * len(case['configs'])
                    for step in case['perturb']:
                        # lexicons that disappear / appear with this step
                        affected = {step[1]}
                        grown = True
                        while grown:
                            grown = False
                            for l in tabs['lex']:
                                if l[4] in affected and l[0] not in affected:
                                    affected.add(l[0])
                                    grown = True
                        if step[0] == 'remove':
                            wn.remove(step[1], progress_handler=None)
                        elif step[0] == 'add' and step[1] in affected:
                            w = World()
                            for k, v in case['tables'].items():
                                setattr(w, k, v)
                            p = base_dir() / 'perturb.xml'
                            p.write_text(lmfgen.to_xml(w.resource([step[1]])), encoding='utf-8')
                            wn.add(p, progress_handler=None)
                        _spec_cache.clear()
                        which = []
                        for k, cfg in enumerate(case['configs']):
                            o0 = obs[k]
                            outside = (o0['st'] == 'ok' and cfg['lexicon'] + cfg['lang'] != '~~'
                                       and not cfg.get('nostab')
                                       and not affected & (set(o0['lexicons']) | set(o0['expanded'])))
                            if not outside:
                                clean[k] = False
                            if step[2] == 'all' or (outside and clean[k]):
                                which.append((k, outside and clean[k]))
                        rec['after'].append(
                            {'step': step, 'inst': [lx.specifier() for lx in wn.lexicons()],
                             'obs': [battery(case['tables'], case['configs'][k], case['want'],
                                             case['argsets']) for k, _ in which],
                             'same_as': [k if outside else -1 for k, outside in which]})
        except JobTimeout:
            rec = {'id': case['id'], 'timeout': True}
        out.append(rec)
    return {'obs': out}


if __name__ == '__main__':
    main_loop(handle, per_job_timeout=3600)
