"""Driver for the store engine (C05 C06 C07 C08 C19): executes operations of the
store alphabet on scratch databases and records [pre, op, ret, post].

job modes
  steps : {'snap': path|None, 'ops': [op, ...], 'save': dir}
          every op is executed on its own copy of the snapshot database
  walk  : {'ops': [op, ...]}  a history executed on one fresh database
  fault : {'snap': path|None, 'op': op, 'kind': 'callback'|'authorizer'|'close', 'k': int|None}
op = ['add', resource, route] | ['remove', arg] | ['ili', file, route] | ['addres', resource]
"""
from __future__ import annotations

import gzip
import hashlib
import json
import lzma
import os
import shutil
import sqlite3
import tarfile
import zlib
from pathlib import Path

import wn
from wn import lmf

from harness import lmfgen, universe, storeobs
from harness.wnenv import (fresh_db, use_db, close_db, base_dir, main_loop, exc_name,
                           JobTimeout)

_files: dict = {}
_memobjs: dict = {}
OWN = {l['spec']: l['own_extras'] for l in universe.abstract()['lex']}


def file_sha(p: Path) -> str:
    h = hashlib.sha256()
    if p.is_dir():
        for q in sorted(p.rglob('*')):
            if q.is_file():
                h.update(str(q.relative_to(p)).encode())
                h.update(q.read_bytes())
    else:
        h.update(p.read_bytes())
    return h.hexdigest()[:16]


def _xml(name: str, version='1.3') -> Path:
    d = base_dir() / 'res'
    d.mkdir(exist_ok=True)
    p = d / f'{name}-{version}.xml'
    if not p.exists():
        # (a resource may fix its own format version, e.g. Rf10)
        text = lmfgen.to_xml(universe.resource(name, version))
        # lexicon u carries a comment over several lines that mentions an <Extends> element:
        # comments are no content, whichever way the file is read
        lines = text.split('\n')
        for k, ln in enumerate(lines):
            if ln.lstrip().startswith('<Lexicon id="u"'):
                lines[k + 1:k + 1] = ['    <!-- an earlier release was an extension:',
                                      '         <Extends id="a" version="1"/>',
                                      '    -->']
                break
        # lexicon ab writes a character of its version as a character reference with upper-case
        # hexadecimal digits: the scan and the parser must read the same version
        for k, ln in enumerate(lines):
            if ln.lstrip().startswith('<Lexicon id="ab"'):
                lines[k] = ln.replace('version="1.0+b"', 'version="1&#x2E;0+b"')
        p.write_text('\n'.join(lines), encoding='utf-8')
    return p


def _ili(name: str) -> Path:
    d = base_dir() / 'res'
    d.mkdir(exist_ok=True)
    p = d / f'{name}.tsv'
    if not p.exists():
        p.write_text(universe.ili_text(name, crlf=(name == 'f2')), encoding='utf-8')
    return p


def _package(src: Path, name: str, extra=True) -> Path:
    d = base_dir() / 'res' / f'pkg-{name}'
    if not d.exists():
        d.mkdir(parents=True)
        shutil.copy(src, d / src.name)
        if extra:
            (d / 'README.md').write_text('# readme\n')
            (d / 'LICENSE').write_text('license text\n')
            (d / 'citation.bib').write_text('@misc{x}\n')
    return d


def _tar(src: Path, name: str, mode: str) -> Path:
    suffix = {'w': '.tar', 'w:gz': '.tar.gz', 'w:xz': '.tar.xz'}[mode]
    p = base_dir() / 'res' / f'{name}{suffix}'
    if not p.exists():
        with tarfile.open(p, mode) as t:
            t.add(src, arcname=src.name)
    return p


def source_for(kind: str, name: str, route: str) -> Path:
    """Materialise resource / ILI file `name` for the given supply route."""
    key = (kind, name, route)
    if key in _files:
        return _files[key]
    src = _xml(name) if kind == 'res' else _ili(name)
    if route == 'xml':
        p = src
    elif route == 'gz':
        p = src.with_suffix(src.suffix + '.gz')
        p.write_bytes(gzip.compress(src.read_bytes()))
    elif route == 'xz':
        p = src.with_suffix(src.suffix + '.xz')
        p.write_bytes(lzma.compress(src.read_bytes()))
    elif route in ('gz2', 'xz2'):
        # the same file written in several members / streams (gzip -c a b > c.gz, an
        # appended-to file, bgzip): still one document to gzip.open / lzma.open
        data = src.read_bytes()
        cuts = [0, len(data) // 3, len(data) // 3 + 1, 2 * len(data) // 3, len(data)]
        comp = gzip.compress if route == 'gz2' else lzma.compress
        p = src.with_suffix(src.suffix + ('.m.gz' if route == 'gz2' else '.m.xz'))
        p.write_bytes(b''.join(comp(data[a:b]) for a, b in zip(cuts, cuts[1:])))
    elif route == 'sq':
        # the same document with single quotes in the XML declaration and the DOCTYPE
        lines = src.read_text(encoding='utf-8').split('\n')
        lines[0], lines[1] = lines[0].replace('"', "'"), lines[1].replace('"', "'")
        p = src.with_suffix('.sq.xml')
        p.write_text('\n'.join(lines), encoding='utf-8')
    elif route == 'pkg':
        p = _package(src, name)
    elif route == 'coll':
        d = base_dir() / 'res' / f'coll-{name}'
        if not d.exists():
            d.mkdir()
            shutil.copytree(_package(src, name), d / f'pkg-{name}')
            (d / 'README.md').write_text('collection\n')
        p = d
    elif route in ('tar', 'tar.gz', 'tar.xz'):
        mode = {'tar': 'w', 'tar.gz': 'w:gz', 'tar.xz': 'w:xz'}[route]
        p = _tar(src, f'{name}-file', mode)
    elif route in ('tarpkg', 'tarpkg.gz', 'tarpkg.xz'):
        mode = {'tarpkg': 'w', 'tarpkg.gz': 'w:gz', 'tarpkg.xz': 'w:xz'}[route]
        p = _tar(_package(src, name), f'{name}-pkg', mode)
    elif route == 'tarcoll.xz':
        p = _tar(source_for(kind, name, 'coll'), f'{name}-coll', 'w:xz')
    else:
        raise ValueError(route)
    _files[key] = p
    return p


def collection_of(names, route) -> Path:
    key = ('coll', tuple(names), route)
    if key in _files:
        return _files[key]
    d = base_dir() / 'res' / ('multi-' + '-'.join(names))
    if not d.exists():
        d.mkdir(parents=True)
        for n in names:
            shutil.copytree(_package(_xml(n), n), d / f'pkg-{n}')
        (d / 'LICENSE').write_text('collection license\n')
    p = d if route == 'coll' else _tar(d, 'multi-' + '-'.join(names),
                                       {'tarcoll': 'w', 'tarcoll.gz': 'w:gz',
                                        'tarcoll.xz': 'w:xz'}[route])
    _files[key] = p
    return p


def corrupt(name: str, kind: str, pos: int) -> Path | None:
    """A copy of resource `name` with one reference corrupted; None if the
    document has no such position."""
    res = universe.resource(name)
    lex = res['lexicons'][-1]          # the last lexicon of the file is corrupted
    k = 0
    done = False
    if kind == 'sense_synset':
        for e in lex['entries']:
            for s_ in e.get('senses', []):
                if not s_.get('external'):
                    if k == pos:
                        s_['synset'] = 'no-such-synset'
                        done = True
                    k += 1
    elif kind in ('sense_synset_foreign', 'synset_rel_foreign', 'sense_rel_foreign'):
        # the reference names an id that exists - in ANOTHER lexicon (a:1, installed in the
        # scenarios that use these kinds); it is as unresolvable as an id nobody has
        if kind == 'sense_synset_foreign':
            for e in lex['entries']:
                for s_ in e.get('senses', []):
                    if not s_.get('external'):
                        if k == pos:
                            s_['synset'] = 'a-s1'
                            done = True
                        k += 1
        elif kind == 'synset_rel_foreign':
            for ss in lex['synsets']:
                for r in ss.get('relations', []):
                    if k == pos:
                        r['target'] = 'a-s1'
                        done = True
                    k += 1
        else:
            for e in lex['entries']:
                for s_ in e.get('senses', []):
                    for r in s_.get('relations', []):
                        if k == pos:
                            r['target'] = 'a-w1-1'
                            done = True
                        k += 1
    elif kind == 'synset_rel':
        for ss in lex['synsets']:
            for r in ss.get('relations', []):
                if k == pos:
                    r['target'] = 'no-such-target'
                    done = True
                k += 1
    elif kind == 'sense_rel':
        for e in lex['entries']:
            for s_ in e.get('senses', []):
                for r in s_.get('relations', []):
                    if k == pos:
                        r['target'] = 'no-such-target'
                        done = True
                    k += 1
    elif kind == 'dup_entry':
        locs = [e for e in lex['entries'] if not e.get('external')]
        if pos < len(locs):
            import copy
            lex['entries'].append(copy.deepcopy(locs[pos]))
            done = True
    elif kind == 'dup_form':
        locs = [e for e in lex['entries'] if not e.get('external')]
        if pos < len(locs):
            e = locs[pos]
            e.setdefault('forms', []).append({'writtenForm': e['lemma']['writtenForm'],
                                              **({'script': e['lemma']['script']}
                                                 if e['lemma'].get('script') else {})})
            # a repeated form only clashes when the script is given (NULLs are distinct)
            done = bool(e['lemma'].get('script'))
    elif kind == 'malformed':
        txt = lmfgen.to_xml(res)
        cut = [len(txt) * (pos + 1) // 5, ][0]
        if pos < 4:
            p = base_dir() / 'res' / f'bad-{name}-{kind}-{pos}.xml'
            p.write_text(txt[:cut], encoding='utf-8')
            return p
        return None
    if not done:
        return None
    p = base_dir() / 'res' / f'bad-{name}-{kind}-{pos}.xml'
    p.write_text(lmfgen.to_xml(res), encoding='utf-8')
    return p


_treeno = [0]


def build_tree(node, parent: Path, name: str) -> Path:
    """materialise a WnProject path tree below `parent`; -> the path of the node"""
    k = node['k']
    if k == 'file':
        what = node['what']
        # a resource file is recognised by its content: the name may carry any suffix or none
        odd = ['', '', '.txt', '', '.md', '', '.rst', '.bib'][zlib.crc32(name.encode()) % 8]
        if what.startswith('lmf:'):
            p = parent / f'{name}{odd or ".xml"}'
            if odd and zlib.crc32(name.encode()) % 3 == 0:
                p = parent / name
            shutil.copy(_xml(what[4:]), p)
        elif what.startswith('ili:'):
            p = parent / f'{name}{odd or ".tsv"}'
            shutil.copy(_ili(what[4:]), p)
        else:
            p = parent / f'{name}.txt'
            p.write_text('not a resource\n')
        return p
    if k in ('gz', 'xz'):
        inner = build_tree(node['of'], parent, name + '-raw')
        p = parent / f'{name}.{k}'
        data = inner.read_bytes()
        p.write_bytes(gzip.compress(data) if k == 'gz' else lzma.compress(data))
        inner.unlink()
        return p
    if k == 'dir':
        d = parent / name
        d.mkdir()
        for j, kid in enumerate(node['kids']):
            build_tree(kid, d, f'{name}-{j}')
        return d
    if k == 'tar':
        stage = parent / f'{name}-stage'
        stage.mkdir()
        tops = [build_tree(kid, stage, f'{name}-{j}') for j, kid in enumerate(node['kids'])]
        p = parent / f'{name}.tar.gz'
        with tarfile.open(p, 'w:gz') as t:
            for top in tops:
                t.add(top, arcname=top.name)
            if node.get('unsafe'):
                import io
                info = tarfile.TarInfo('../escape.txt')
                info.size = 1
                t.addfile(info, io.BytesIO(b'x'))
        shutil.rmtree(stage)
        return p
    raise ValueError(k)


def apply(op, handler=None) -> dict:
    """Execute one operation through the public API; -> {'ret': ..., extra}"""
    extra = {}
    try:
        if op[0] == 'add':
            route = op[2] if len(op) > 2 else 'xml'
            if route in ('mem', 'memobj'):
                # 'memobj': one resource object per job, supplied again and again
                if route == 'memobj' and op[1] in _memobjs:
                    res = _memobjs[op[1]]
                else:
                    res = lmf.load(_xml(op[1]), progress_handler=None)
                    _memobjs[op[1]] = res
                before = json.dumps(res, sort_keys=True, default=str)
                wn.add_lexical_resource(res, progress_handler=handler)
                extra['inputs_unchanged'] = (
                    json.dumps(res, sort_keys=True, default=str) == before)
            else:
                src = source_for('res', op[1], route)
                before = file_sha(src)
                tmp_before = set(os.listdir(tempdir()))
                wn.add(src, progress_handler=handler)
                extra['inputs_unchanged'] = file_sha(src) == before
                extra['tmp_left'] = sorted(set(os.listdir(tempdir())) - tmp_before)
        elif op[0] == 'addcoll':
            src = collection_of(op[1], op[2])
            before = file_sha(src)
            wn.add(src, progress_handler=handler)
            extra['inputs_unchanged'] = file_sha(src) == before
        elif op[0] == 'addtree':
            _treeno[0] += 1
            root = base_dir() / 'trees'
            root.mkdir(exist_ok=True)
            src = build_tree(op[1], root, f't{_treeno[0]}')
            before = file_sha(src)
            wn.add(src, progress_handler=handler)
            extra['inputs_unchanged'] = file_sha(src) == before
        elif op[0] == 'addbad':
            src = corrupt(op[1], op[2], op[3])
            if src is None:
                return {'ret': 'n/a'}
            wn.add(src, progress_handler=handler)
        elif op[0] == 'remove':
            wn.remove(op[1], progress_handler=handler)
        elif op[0] == 'ili':
            route = op[2] if len(op) > 2 else 'xml'
            src = source_for('ili', op[1], route)
            before = file_sha(src)
            wn.add(src, progress_handler=handler)
            extra['inputs_unchanged'] = file_sha(src) == before
        else:
            raise ValueError(op)
        ret = 'ok'
    except JobTimeout:
        raise
    except storeobs.InjectedFault:
        ret = 'exc:fault'
    except wn.Error as e:
        ret = 'exc:wn.Error'
        extra['msg'] = str(e)[:200]
    except Exception as e:
        ret = 'exc:' + exc_name(e)
        extra['msg'] = str(e)[:200]
    extra['ret'] = ret
    return extra


def tempdir() -> str:
    import tempfile
    return tempfile.gettempdir()


def proj_key(o) -> str:
    """identity of an abstract state for the breadth-first exploration"""
    return storeobs.sha({k: o[k] for k in ('inst', 'ilis', 'look', 'links')})


def load_snapshot(snap, name='work') -> Path:
    d = fresh_db(name)
    if snap:
        shutil.copy(snap, d / 'wn.db')
    return d


def handle(job):
    mode = job['mode']
    # the documented switch for using wn from several threads: set before the connection
    # of this job is opened (every mode starts from a fresh or snapshot database)
    if wn.config.allow_multithreading != bool(job.get('mt')):
        close_db()
        wn.config.allow_multithreading = bool(job.get('mt'))
    if mode == 'steps':
        out = []
        pre = None
        for op in job['ops']:
            d = load_snapshot(job.get('snap'))
            if pre is None:
                pre = storeobs.observe(OWN)
            r = apply(op)
            post = storeobs.observe(OWN)
            key = proj_key(post)
            rec = {'op': op, 'pre': pre, 'post': post, 'key': key}
            rec.update(r)
            if job.get('save'):
                tgt = Path(job['save']) / f'{key}.db'
                if not tgt.exists():
                    close_db()
                    tmp = tgt.with_suffix(f'.{os.getpid()}.tmp')
                    shutil.copy(d / 'wn.db', tmp)
                    os.replace(tmp, tgt)
            out.append(rec)
        return {'recs': out}
    if mode == 'mk':
        d = load_snapshot(None)
        storeobs.conn()
        for op in job['ops']:
            apply(op)
        close_db()
        shutil.copy(d / 'wn.db', job['out'])
        return {'ok': True}
    if mode in ('walk', 'walkfrom'):
        load_snapshot(job.get('snap'))
        _memobjs.clear()
        out = []
        pre = storeobs.observe(OWN)
        for op in job['ops']:
            r = apply(op)
            post = storeobs.observe(OWN)
            rec = {'op': op, 'pre': pre, 'post': post}
            rec.update(r)
            out.append(rec)
            pre = post
        return {'recs': out}
    if mode == 'fault':
        load_snapshot(job.get('snap'))
        for op in job.get('prefix', []):
            apply(op)
        pre = storeobs.observe(OWN)
        counter = [0]
        kind, k = job['kind'], job.get('k')
        r = {}
        if kind in ('callback', 'close'):
            h = storeobs.faulty_handler(k, counter, where='close' if kind == 'close' else 'any')
            r = apply(job['op'], handler=h)
        elif kind == 'authorizer':
            c = storeobs.conn()
            c.set_authorizer(storeobs.deny_nth_write(k, counter))
            try:
                r = apply(job['op'])
            finally:
                c.set_authorizer(None)
        post = storeobs.observe(OWN)
        rec = {'op': job['op'], 'pre': pre, 'post': post,
               'fault': {'kind': kind, 'k': k if k is not None else 0,
                         'count': counter[0], 'at': counter[1] if len(counter) > 1 else '~'}}
        rec.update(r)
        # the library must stay usable: a following valid operation behaves normally
        if job.get('then'):
            r2 = apply(job['then'])
            rec['then'] = {'op': job['then'], 'ret': r2['ret'], 'post': storeobs.observe(OWN)}
        recs = [rec]
        # ... and stays usable for whatever comes next: further operations are recorded as
        # ordinary steps (a remove after a failed add must still take everything with it)
        prev = rec['then']['post'] if job.get('then') else post
        for op in job.get('then_chain', []):
            r3 = apply(op)
            cur = storeobs.observe(OWN)
            step = {'op': op, 'pre': prev, 'post': cur}
            step.update(r3)
            recs.append(step)
            prev = cur
        return {'recs': recs}
    if mode == 'iso':
        # a second connection looks at the database at every callback of the operation
        load_snapshot(job.get('snap'))
        for op in job.get('prefix', []):
            apply(op)
        pre = storeobs.observe(OWN)
        views, counter = [], [0]
        r = apply(job['op'], handler=storeobs.watching_handler(views, counter))
        post = storeobs.observe(OWN)
        rec = {'op': job['op'], 'pre': pre, 'post': post, 'callbacks': counter[0],
               'views': [[w['from'], w['to'], 'busy' if 'busy' in w['v'] else 'seen',
                          w['v'] if 'busy' not in w['v'] else {}] for w in views]}
        rec.update(r)
        return {'recs': [rec]}
    if mode == 'crash':
        # the operation runs in a child process that dies at its k-th callback
        import subprocess
        import sys
        d = load_snapshot(job.get('snap'))
        for op in job.get('prefix', []):
            apply(op)
        pre = storeobs.observe(OWN)
        close_db()
        jf = base_dir() / 'crashjob.json'
        jf.write_text(json.dumps([{'mode': 'crashchild', 'dir': str(d), 'op': job['op'], 'k': job['k']}]))
        p = subprocess.run([sys.executable, __file__, str(jf), str(base_dir() / 'crashout.json')],
                           capture_output=True, text=True, timeout=600)
        journal = sorted(x.name for x in d.iterdir() if x.name != 'wn.db')
        use_db(d)
        post = storeobs.observe(OWN)
        rec = {'op': job['op'], 'pre': pre, 'post': post,
               'ret': 'exc:crash' if p.returncode == 77 else f'child:{p.returncode}',
               'fault': {'kind': 'crash', 'k': job['k'], 'count': job['k'],
                         'at': 'callback' if p.returncode == 77 else '~'},
               'left_beside_db': journal}
        if p.returncode not in (0, 77):
            rec['msg'] = (p.stderr or '')[-300:]
        if job.get('then'):
            r2 = apply(job['then'])
            rec['then'] = {'op': job['then'], 'ret': r2['ret'], 'post': storeobs.observe(OWN)}
        return {'recs': [rec]}
    if mode == 'crashchild':
        use_db(Path(job['dir']))
        apply(job['op'], handler=storeobs.dying_handler(job['k'], [0]))
        return {'recs': []}
    raise ValueError(mode)


if __name__ == '__main__':
    main_loop(handle, per_job_timeout=1800)
