"""Driver-side helpers (run inside /venv's python with wn from /repo)."""
from __future__ import annotations

import json
import os
import shutil
import signal
import sys
import tempfile
import warnings
from pathlib import Path

import wn
import wn._db


class JobTimeout(Exception):
    pass


def _alarm(signum, frame):
    raise JobTimeout()


import contextlib


@contextlib.contextmanager
def limit(seconds: int):
    """Raise JobTimeout in the block after *seconds* (nested inside the
    per-job alarm of main_loop, which is re-armed afterwards)."""
    # (a case that ran out of time next to fifteen busy workers is run again alone with
    # WN_VERIF_TIMEOUT_SCALE times the limit before it counts as not terminating)
    seconds = int(seconds) * int(os.environ.get('WN_VERIF_TIMEOUT_SCALE', '1'))
    old = signal.alarm(int(seconds))
    try:
        yield
    finally:
        signal.alarm(old if old else 0)


_base: Path | None = None


def base_dir() -> Path:
    global _base
    if _base is None:
        root = os.environ.get('WN_VERIF_SCRATCH') or tempfile.gettempdir()
        _base = Path(tempfile.mkdtemp(prefix='wnw-', dir=root))
        # a private temporary directory: what the library leaves behind there
        # is observable, and parallel workers do not see each other's files
        (_base / 'tmp').mkdir()
        tempfile.tempdir = str(_base / 'tmp')
    return _base


# incremented whenever wn is pointed at another database file (also one of the same name)
DB_GENERATION = [0]


def close_db():
    DB_GENERATION[0] += 1
    for conn in list(wn._db.pool.values()):
        try:
            conn.close()
        except Exception:
            pass
    wn._db.pool.clear()


def fresh_db(name: str = 'db') -> Path:
    """Point wn at a new empty data directory."""
    close_db()
    d = base_dir() / name
    if d.exists():
        shutil.rmtree(d)
    d.mkdir(parents=True)
    wn.config.data_directory = d
    return d


def use_db(d: Path):
    close_db()
    wn.config.data_directory = d


def exc_name(e: BaseException) -> str:
    c = type(e)
    return f'{c.__module__}.{c.__name__}' if c.__module__ != 'builtins' else c.__name__


def main_loop(handler, per_job_timeout: int = 60):
    """Read jobs (argv[1]), call handler(job) -> result dict, write one JSON
    line per job to argv[2].  A job exceeding the timeout gives
    {'timeout': True}; an unexpected harness exception aborts the worker."""
    jobs = json.loads(Path(sys.argv[1]).read_text(encoding='utf-8'))
    # a runaway computation (e.g. a closure that never terminates) must end as an
    # observation, not take the machine down
    import resource
    cap = int(os.environ.get('WN_VERIF_MEMCAP', str(3 * 1024 ** 3)))
    resource.setrlimit(resource.RLIMIT_AS, (cap, cap))
    signal.signal(signal.SIGALRM, _alarm)
    warnings.simplefilter('ignore')
    with open(sys.argv[2], 'w', encoding='utf-8') as out:
        for job in jobs:
            signal.alarm(int(job.get('_timeout', per_job_timeout)))
            try:
                res = handler(job)
            except JobTimeout:
                res = {'timeout': True}
            except (AssertionError, MemoryError):
                raise
            except Exception as e:      # noqa: BLE001
                # the library raised where the driver expects no exception (e.g. wn.add() of a
                # valid document): that is an observation about the library, reported like a
                # call that did not come back, with the exception kept for the replay file
                import traceback
                res = {'timeout': True, 'crash': f'{type(e).__name__}: {e}'[:300],
                       'where': traceback.format_exc()[-600:]}
                print('driver: unexpected exception ' + res['crash'], file=sys.stderr)
            finally:
                signal.alarm(0)
            out.write(json.dumps(res, ensure_ascii=False, separators=(',', ':'),
                                 default=str))
            out.write('\n')
            out.flush()
    close_db()
    if _base is not None:
        shutil.rmtree(_base, ignore_errors=True)
