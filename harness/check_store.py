"""C05 C06 C07 C19 (store engine).  Model: spec/WnStore.tla, bounded instance
spec/MC_Store.tla.  Binding: the operations of the store alphabet are executed
by the real code on scratch databases (breadth-first over the implementation's
own state graph, one snapshot database per abstract state; random histories;
fault enumeration; supply routes) and every recorded step [pre, op, ret, post]
is judged by TLC with spec/Judge_Store.tla."""
from __future__ import annotations

import json
import random
import shutil
import tempfile
from pathlib import Path

from harness import universe
from harness.core import (Verdict, tlc_model, tlc_judge, run_driver, run_tlc, seed,
                          NCPU, scratch, SPEC, MachineryError)

RES_Q = ['Ra1', 'Ra2', 'Rx', 'Ry', 'Rr', 'Rar', 'Rax', 'Raa']
REM_Q = ['a', 'a:1', 'a:*', 'x:1', '*', 'r', 'zz', 'y:1 a:2']
ILI_Q = ['f1', 'f2']
# Rf10 carries lexicon f:1 in another representation (other frame ids): one per history
RES_T = [r for r in universe.RESOURCES if r != 'Rf10']
REM_T = REM_Q + ['*:1', 'a*', 'ab', 'u:2 r:1', 'a:2', 'y', 'x', '*:1.0+b', 'a x:*']
ILI_T = ['f1', 'f2', 'f3', 'f4']


def check_universe_file():
    cur = json.loads((SPEC / 'universe.json').read_text())
    if cur != json.loads(json.dumps(universe.abstract())):
        raise MachineryError('spec/universe.json is stale: run python -m harness.universe')


def alphabet(res, rem, ili):
    return ([['add', r, 'xml'] for r in res] + [['remove', a] for a in rem]
            + [['ili', f, 'xml'] for f in ili])


def bfs(ops, max_depth, max_states, rng, sample_ops=None):
    """Breadth-first exploration of the implementation's state graph."""
    snapdir = Path(tempfile.mkdtemp(prefix='snaps-', dir=scratch()))
    level = [None]           # snapshot paths (None = empty database)
    seen = set()
    recs = []
    depth = 0
    first = True
    while level and depth < max_depth:
        jobs = []
        for snap in level:
            todo = ops if (sample_ops is None or first) else rng.sample(ops, min(sample_ops, len(ops)))
            jobs.append({'mode': 'steps', 'snap': snap, 'ops': todo, 'save': str(snapdir)})
        first = False
        res = run_driver('drv_store.py', jobs, timeout=3000)
        nxt = []
        for j, r in zip(jobs, res):
            if r is None or 'recs' not in r:
                recs.append({'timeout': True, 'op': ['?'], 'job': j['ops']})
                continue
            for rec in r['recs']:
                recs.append(rec)
                k = rec['key']
                if k not in seen:
                    seen.add(k)
                    nxt.append(str(snapdir / f'{k}.db'))
        depth += 1
        if len(seen) > max_states:
            nxt = rng.sample(nxt, max(0, min(len(nxt), max_states // 4)))
        level = nxt
    shutil.rmtree(snapdir, ignore_errors=True)
    return recs, len(seen), depth


def number(recs, start=0):
    for k, r in enumerate(recs):
        r['id'] = start + k + 1
        r.pop('key', None)
    return recs


def functional_pairs(recs):
    pairs = set()
    for r in recs:
        for o in (r.get('pre'), r.get('post'), (r.get('then') or {}).get('post')):
            if o:
                for spec, dg in o['digests']:
                    pairs.add((spec, dg))
    return sorted(pairs)


def reference_digests():
    """Owned rows of every lexicon in a database built from scratch with only its
    base chain installed: the literal reading of 'content depends only on what is
    installed'."""
    chains = {'a:1': ['Ra1'], 'a:2': ['Ra2'], 'x:1': ['Ra1', 'Rx'], 'y:1': ['Ra1', 'Rx', 'Ry'],
              'r:1': ['Rr'], 'u:2': ['Ru'], 'ab:1.0+b': ['Rab']}
    jobs = [{'mode': 'walk', 'ops': [['add', r, 'xml'] for r in ch]} for ch in chains.values()]
    res = run_driver('drv_store.py', jobs, timeout=600)
    pairs = set()
    for spec, r in zip(chains, res):
        last = r['recs'][-1]['post']
        for s, dg in last['digests']:
            if s == spec:
                pairs.add((s, dg))
    return sorted(pairs)


def judge_functional(v, name, pairs):
    rec = {'id': 1, 'pairs': [list(p) for p in pairs]}
    j = tlc_judge('Judge_Functional', [rec], cfg='Judge.cfg', shards=1)
    v.add_judgement(name, j, {1: rec}, nontrivial=0)


def model(v, thorough):
    cfg = 'MC_Store_full.cfg' if thorough else 'MC_Store.cfg'
    r = tlc_model('MC_Store', cfg, timeout=3 * 3600, coverage=True)
    v.add_model(f'MC_Store ({cfg})', r)
    never = [a for a, (n, d) in r.coverage.items() if n == 0 and a not in ('Init',)]
    v.cov['action_coverage'] = {a: list(c) for a, c in r.coverage.items()}
    if never:
        v.notes.append(f'actions never taken in the bounded model: {never}')
    return r


def c05(tier: str) -> int:
    v = Verdict('C05', tier)
    check_universe_file()
    thorough = tier == 'thorough'
    v.assumptions = [
        'the abstract state is observed through the SQLite file (natural keys, no row ids) '
        'and the public API (requires / extends / extensions)',
        'cross-lexicon ordering and the shared ILI inventory are outside the property',
        'per-lexicon content = rows owned by the lexicon (tags / pronunciations are '
        'ownerless in the schema and are counted per base lexicon instead)']
    model(v, thorough)
    rng = random.Random(seed() + 5)
    ops = alphabet(RES_T if thorough else RES_Q, REM_T if thorough else REM_Q,
                   ILI_T if thorough else ILI_Q[:1])
    recs, nstates, depth = bfs(ops, 12 if thorough else 5, 4000 if thorough else 260, rng,
                               sample_ops=None if thorough else 9)
    # spec -> code: behaviours generated by TLC's simulator from MC_StoreWalk (whole API
    # calls over the full universe) are replayed on the real code; the installed
    # lexicons and outcome the specification expects travel with every step
    nwalk = 1200 if thorough else 64
    sim = run_tlc('MC_StoreWalk', workers=1, simulate=f'num={nwalk}',
                  extra=['-depth', '40', '-seed', str(seed() + 5)], timeout=1800)
    walks = [w for w in sim.printed() if isinstance(w, list) and w and isinstance(w[0], dict)]
    if sim.rc != 0 or len(walks) < nwalk // 2:
        raise MachineryError('TLC -simulate produced no behaviours:\n' + sim.out[-2000:])
    v.cov['tlc_simulated_behaviours'] = len(walks)
    # plus uniformly random histories (they also try calls the simulator finds disabled)
    allops = alphabet(RES_T, REM_T, ILI_T)
    jobs = [{'mode': 'walk', 'ops': [st['op'] for st in w], 'exp': w} for w in walks]
    jobs += [{'mode': 'walk', 'ops': [rng.choice(allops) for _ in range(25 if thorough else 14)]}
             for _ in range(200 if thorough else 16)]
    wres = run_driver('drv_store.py', jobs, timeout=3000)
    for j, r in zip(jobs, wres):
        if r is None or 'recs' not in r:
            recs.append({'timeout': True, 'op': ['?'], 'job': j['ops']})
        else:
            for k, rec in enumerate(r['recs']):
                if 'exp' in j:
                    rec['exp'] = {'outcome': j['exp'][k]['outcome'], 'inst': j['exp'][k]['inst']}
                recs.append(rec)
    number(recs)
    j = tlc_judge('Judge_Store', recs, cfg='Judge.cfg', shards=NCPU)
    nontriv = sum(1 for r in recs if r.get('pre') and r['pre']['inst'] != r['post']['inst'])
    v.add_judgement('Judge_Store', j, {r['id']: r for r in recs}, nontrivial=nontriv)
    judge_functional(v, 'Judge_Functional (owned rows are a function of the lexicon)',
                     set(functional_pairs(recs)) | set(reference_digests()))
    v.cov['impl_states_explored'] = nstates
    v.cov['bfs_depth'] = depth
    v.cov['rule'] = ('breadth-first over the implementation state graph (every op of the alphabet '
                     'from a snapshot database of every abstract state reached, depth-bounded) plus '
                     'random histories over the full universe; non-trivial = the set of installed '
                     'lexicons changed')
    for r in recs[40:43]:
        v.sample({'op': r['op'], 'ret': r.get('ret'), 'pre_inst': r['pre']['inst'],
                  'post_inst': r['post']['inst'], 'post_links': r['post']['links']})
    return v.finish()


# ---------------------------------------------------------------------------
# C06: fault enumeration
# ---------------------------------------------------------------------------

def make_snapshots(defs: dict) -> dict:
    d = Path(tempfile.mkdtemp(prefix='snap-', dir=scratch()))
    jobs = [{'mode': 'mk', 'ops': ops, 'out': str(d / f'{name}.db')} for name, ops in defs.items()]
    run_driver('drv_store.py', jobs, timeout=600)
    return {name: (str(d / f'{name}.db') if ops else None) for name, ops in defs.items()}


def count_faults(snaps, scen):
    """fault-free runs that count the callbacks / write authorisations of each scenario"""
    jobs = []
    for s in scen:
        for kind in ('callback', 'authorizer'):
            jobs.append({'mode': 'fault', 'snap': snaps[s['snap']], 'op': s['op'],
                         'kind': kind, 'k': None})
    res = run_driver('drv_store.py', jobs, timeout=600)
    out = []
    k = 0
    for s in scen:
        cb = res[k]['recs'][0]['fault']['count']
        au = res[k + 1]['recs'][0]['fault']['count']
        out.append((cb, au))
        k += 2
    return out


def c06(tier: str) -> int:
    v = Verdict('C06', tier, level='model_checking')
    check_universe_file()
    thorough = tier == 'thorough'
    v.assumptions = [
        'failures are injected through the documented progress_handler parameter (exception at '
        'the k-th update/set/flash over all handler instances), sqlite3 set_authorizer (n-th '
        'write authorisation denied) and corrupted documents; no hook in the repository',
        'an exception raised from progress.close() arrives after the commit by design: there '
        'the outcome must be all-or-nothing (AtomicOutcome)']
    model(v, thorough)
    snaps = make_snapshots({
        'S0': [],
        'S1': [['add', 'Ra1', 'xml']],
        'S2': [['add', 'Ra1', 'xml'], ['add', 'Rx', 'xml'], ['add', 'Ry', 'xml'],
               ['add', 'Rr', 'xml'], ['add', 'Ra2', 'xml'], ['ili', 'f1', 'xml']],
    })
    scen = [
        {'snap': 'S0', 'op': ['add', 'Rar', 'xml'], 'then': ['add', 'Rar', 'xml'],
         'chain': [['remove', 'a:1'], ['add', 'Ra1', 'xml']]},
        {'snap': 'S0', 'op': ['add', 'Rax', 'gz'], 'then': ['add', 'Ra1', 'xml']},
        {'snap': 'S1', 'op': ['add', 'Rx', 'xml'], 'then': ['remove', 'a:1'],
         'chain': [['add', 'Rax', 'xml'], ['remove', 'x:1'], ['add', 'Rx', 'xml']]},
        {'snap': 'S1', 'op': ['add', 'Rar', 'mem'], 'then': ['add', 'Rr', 'xml'],
         'chain': [['remove', '*'], ['add', 'Rar', 'xml']]},
        {'snap': 'S2', 'op': ['remove', '*'], 'then': ['add', 'Ru', 'xml']},
        {'snap': 'S2', 'op': ['remove', 'a:*'], 'then': ['remove', 'r']},
        {'snap': 'S2', 'op': ['remove', 'a:1'], 'then': ['add', 'Ra1', 'xml']},
        {'snap': 'S1', 'op': ['ili', 'f1', 'xml'], 'then': ['ili', 'f2', 'xml']},
    ]
    if thorough:
        scen += [
            {'snap': 'S0', 'op': ['add', 'Rua', 'tarpkg.xz'], 'then': ['add', 'Rua', 'xml']},
            {'snap': 'S1', 'op': ['add', 'Ra2', 'xz'], 'then': ['remove', 'a']},
            {'snap': 'S2', 'op': ['add', 'Ru', 'pkg'], 'then': ['add', 'Ru', 'xml']},
            {'snap': 'S2', 'op': ['remove', 'x:1 r:1'], 'then': ['add', 'Rx', 'xml']},
            {'snap': 'S2', 'op': ['remove', 'y r a'], 'then': ['add', 'Ry', 'xml']},
            {'snap': 'S0', 'op': ['addcoll', ['Ra1', 'Ru'], 'coll'], 'then': ['add', 'Ra1', 'xml']},
        ]
    counts = count_faults(snaps, scen)
    jobs = []
    for s, (cb, au) in zip(scen, counts):
        for kind, n in (('callback', cb), ('authorizer', au)):
            for k in range(1, n + 1):
                jobs.append({'mode': 'fault', 'snap': snaps[s['snap']], 'op': s['op'],
                             'kind': kind, 'k': k, 'then': s['then'],
                             'then_chain': s.get('chain', []) if k % 3 == 0 else [],
                             # every fourth fault point with wn.config.allow_multithreading on
                             'mt': k % 4 == 1})
        jobs.append({'mode': 'fault', 'snap': snaps[s['snap']], 'op': s['op'],
                     'kind': 'close', 'k': 1, 'then': s['then']})
    nfault = len(jobs)
    # corrupted documents, every position
    ncorr = 0
    for snap, name in (('S0', 'Ra1'), ('S0', 'Rar'), ('S1', 'Rx'), ('S1', 'Rua')):
        for kind in ('sense_synset', 'synset_rel', 'sense_rel', 'dup_entry', 'dup_form', 'malformed'):
            for pos in range(8):
                jobs.append({'mode': 'fault', 'snap': snaps[snap],
                             'op': ['addbad', name, kind, pos], 'kind': 'callback', 'k': None,
                             'then': ['add', name, 'xml']})
                ncorr += 1
    # references to ids that exist, but only in another installed lexicon (a:1)
    for name in ('Rr', 'Ru'):
        for kind in ('sense_synset_foreign', 'synset_rel_foreign', 'sense_rel_foreign'):
            for pos in range(3):
                jobs.append({'mode': 'fault', 'snap': snaps['S1'],
                             'op': ['addbad', name, kind, pos], 'kind': 'callback', 'k': None,
                             'then': ['add', name, 'xml']})
                ncorr += 1
    res = run_driver('drv_store.py', jobs, timeout=3000)
    recs = []
    for j, r in zip(jobs, res):
        if r is None or 'recs' not in r:
            recs.append({'timeout': True, 'op': j['op']})
            continue
        for rec in r['recs']:
            if rec.get('ret') == 'n/a':
                continue      # the document has no such position
            recs.append(rec)
    number(recs)
    j = tlc_judge('Judge_Store', recs, cfg='Judge.cfg', shards=NCPU)
    raised = sum(1 for r in recs if (r.get('fault') or {}).get('at', '~') != '~'
                 or r['op'][0] == 'addbad')
    v.add_judgement('Judge_Store (faults)', j, {r['id']: r for r in recs}, nontrivial=raised)
    v.level = 'fault_enumeration' if False else 'model_checking'
    v.cov['fault_points'] = {'scenarios': [[s['snap'], s['op'], list(c)] for s, c in zip(scen, counts)],
                             'injected_runs': nfault, 'corrupted_documents': ncorr,
                             'faults_actually_raised_or_corrupt': raised}
    v.cov['exhaustive'] = True
    v.cov['rule'] = ('for every scenario (state, operation): every progress callback k=1..K, every '
                     'denied write authorisation n=1..N, an exception from close(), and every '
                     'position of six corruption kinds; each followed by a valid operation; '
                     'non-trivial = the fault was really raised / the document really corrupted')
    for r in recs[5:7]:
        v.sample({'op': r['op'], 'fault': r.get('fault'), 'ret': r.get('ret'),
                  'unchanged': r['pre']['rawsha'] == r['post']['rawsha'],
                  'then': (r.get('then') or {}).get('ret')})
    return v.finish()


# ---------------------------------------------------------------------------
# C07: supply routes
# ---------------------------------------------------------------------------
ROUTES = ['xml', 'gz', 'xz', 'pkg', 'coll', 'tar', 'tar.gz', 'tar.xz', 'tarpkg', 'tarpkg.gz',
          'tarpkg.xz', 'tarcoll.xz', 'mem', 'gz2', 'xz2', 'sq']


def project_trees(rng, n):
    """path trees for WnProject: packages, collections, archives, compressed files and
    the shapes that must be refused"""
    def f(what):
        return {'k': 'file', 'what': what}
    lm = lambda r: f('lmf:' + r)
    il = lambda x: f('ili:' + x)
    other = f('other')

    def d(*kids):
        return {'k': 'dir', 'kids': list(kids)}

    def tar(*kids, unsafe=False):
        return {'k': 'tar', 'kids': list(kids), 'unsafe': unsafe}
    fixed = [
        lm('Ra1'), il('f1'), other,
        {'k': 'gz', 'of': lm('Ru')}, {'k': 'xz', 'of': il('f2')}, {'k': 'gz', 'of': other},
        d(lm('Ra1'), other), d(lm('Ra1'), lm('Ru')), d(), d(other), d(il('f1'), other),
        d(d(lm('Ra1'), other), d(lm('Ru')), other),                 # collection
        d(d(lm('Ra1')), d(other), d(lm('Ru'), lm('Rr'))),           # one good package, two non-packages
        d(d(il('f1')), d(lm('Ra2'))),                               # an ILI package in a collection
        d(d(d(lm('Ra1')))),                                         # a collection of collections: refused
        d({'k': 'gz', 'of': lm('Ra1')}),                            # compressed file inside a directory
        tar(lm('Ra1')), tar(lm('Ra1'), lm('Ru')), tar(), tar(d(lm('Rr'), other)),
        tar(d(d(lm('Ra1')), d(lm('Ru')))), tar(lm('Ra1'), unsafe=True), tar(other),
        tar(d(lm('Ra1'), lm('Ru'))), tar(tar(lm('Ra1'))),
        d(d(lm('Rx')), d(lm('Ra1'))),                               # extension and base as packages
    ]
    res = ['Ra1', 'Ra2', 'Ru', 'Rr', 'Rab', 'Rx']

    def rnd(depth):
        c = rng.random()
        if depth >= 3 or c < 0.35:
            return rng.choice([lm(rng.choice(res)), il(rng.choice(['f1', 'f2', 'f3'])), other, other])
        if c < 0.45:
            return {'k': rng.choice(['gz', 'xz']), 'of': rnd(3)}
        if c < 0.8:
            return d(*[rnd(depth + 1) for _ in range(rng.randint(0, 3))])
        return tar(*[rnd(depth + 1) for _ in range(rng.choice([0, 1, 1, 1, 2]))], unsafe=rng.random() < 0.1)
    out = list(fixed)
    while len(out) < n:
        out.append(rnd(0))
    return out


def c07(tier: str) -> int:
    v = Verdict('C07', tier)
    check_universe_file()
    thorough = tier == 'thorough'
    v.assumptions = ['archives and compressed files are built with the standard library',
                     'the order in which the packages of a collection are added is unspecified']
    model(v, thorough)
    v.add_model('MC_Project (what add() finds at a path: every tree of depth <= 2)', tlc_model('MC_Project'))
    snaps = make_snapshots({'S0': [], 'S1': [['add', 'Ra1', 'xml']],
                            'S3': [['add', 'Ra1', 'xml'], ['add', 'Rx', 'xml']]})
    names = ['Ra1', 'Rar', 'Rax', 'Rx', 'Ry', 'Ru', 'Rab', 'Rf10', 'Rf11'] + (['Ra2', 'Rr', 'Rxa', 'Raa', 'Rua'] if thorough else [])
    jobs = []
    for sname in ('S0', 'S1', 'S3'):
        for n in names:
            for route in ROUTES:
                # the same resource by this route, then once more by another route
                ops = [['add', n, route], ['add', n, 'xml'], ['add', n, route]]
                jobs.append({'mode': 'walkfrom', 'snap': snaps[sname], 'ops': ops})
            # the same in-memory resource object supplied again after a removal
            jobs.append({'mode': 'walkfrom', 'snap': snaps[sname],
                         'ops': [['add', n, 'memobj'], ['remove', '*'], ['add', n, 'memobj'],
                                 ['remove', '*'], ['add', n, 'xml']]})
        for f in ILI_T:
            for route in ('xml', 'gz', 'xz', 'pkg', 'tar.gz', 'tarpkg', 'gz2'):
                jobs.append({'mode': 'walkfrom', 'snap': snaps[sname],
                             'ops': [['ili', f, route], ['ili', f, 'xml']]})
        for route in ('coll', 'tarcoll', 'tarcoll.gz', 'tarcoll.xz'):
            jobs.append({'mode': 'walkfrom', 'snap': snaps[sname],
                         'ops': [['addcoll', ['Ra1', 'Ru'], route], ['addcoll', ['Ra1', 'Ru'], 'coll']]})
            jobs.append({'mode': 'walkfrom', 'snap': snaps[sname],
                         'ops': [['addcoll', ['Ra2', 'Rr', 'Rab'], route]]})
    # arbitrary trees of directories / archives / files (spec/WnProject.tla)
    trees = project_trees(rng if (rng := random.Random(seed() + 7)) else None, 400 if thorough else 60)
    for sname in ('S0', 'S1'):
        for t in trees:
            jobs.append({'mode': 'walkfrom', 'snap': snaps[sname], 'ops': [['addtree', t]]})
    res = run_driver('drv_store.py', jobs, timeout=3000)
    recs = []
    pairs = set()
    for j, r in zip(jobs, res):
        if r is None or 'recs' not in r:
            recs.append({'timeout': True, 'op': j['ops'][0]})
            continue
        recs.extend(r['recs'])
        first = r['recs'][0]
        # the stored content must not depend on the route
        key = json.dumps([first['op'][0], first['op'][1], first['pre']['rawsha']])
        val = json.dumps([sorted(first['post']['digests']), first['post']['ilis'],
                          first['post']['look'], first['post']['links'], first['post']['foreign'],
                          sorted(first['post']['inst'])])
        pairs.add((key, val))
    number(recs)
    j = tlc_judge('Judge_Store', recs, cfg='Judge.cfg', shards=NCPU)
    v.add_judgement('Judge_Store (routes)', j, {r['id']: r for r in recs},
                    nontrivial=sum(1 for r in recs if r.get('pre') and r['pre']['inst'] != r['post']['inst']))
    judge_functional(v, 'Judge_Functional (stored content is a function of the resource, not the route)',
                     pairs)
    v.cov['routes'] = ROUTES
    v.cov['rule'] = ('resources x supply routes x start states, each route followed by a repetition '
                     'through another route; ILI files by 6 routes; collections of 2 and 3 independent '
                     'packages as directory and tar archives; arbitrary trees of directories / archives / '
                     'compressed files incl. the shapes that must be refused (spec/WnProject.tla); '
                     'non-trivial = the add installed something')
    for r in recs[3:6]:
        v.sample({'op': r['op'], 'ret': r.get('ret'), 'pre': r['pre']['inst'], 'post': r['post']['inst'],
                  'inputs_unchanged': r.get('inputs_unchanged')})
    return v.finish()


# ---------------------------------------------------------------------------
# C19: ILI index files
# ---------------------------------------------------------------------------

def c19(tier: str) -> int:
    v = Verdict('C19', tier)
    check_universe_file()
    thorough = tier == 'thorough'
    v.assumptions = ['the ilis table is read from the SQLite file (ILIs no synset uses are invisible '
                     'through the API when a lexicon is installed); wn.ilis() is compared as well']
    model(v, thorough)
    rng = random.Random(seed() + 19)
    ops = alphabet(['Ra1', 'Ra2', 'Rr', 'Ru', 'Rx'], ['a', 'u', '*'], ILI_T)
    recs, nstates, depth = bfs(ops, 9 if thorough else 5, 5000 if thorough else 300, rng,
                               sample_ops=None if thorough else 8)
    # every interleaving of two lexicon resources and two index files
    import itertools
    jobs = []
    for rs in (['Ra1', 'Rr'], ['Ra2', 'Ru'], ['Ra1', 'Rx']):
        for fs in itertools.permutations(ILI_T, 2):
            items = [['add', r, 'xml'] for r in rs] + [['ili', f, 'xml'] for f in fs]
            for perm in itertools.permutations(items):
                if [p for p in perm if p[0] == 'add'] == items[:2]:
                    jobs.append({'mode': 'walk', 'ops': list(perm) + [list(perm[-1])]})
    res = run_driver('drv_store.py', jobs, timeout=3000)
    for j, r in zip(jobs, res):
        if r is None or 'recs' not in r:
            recs.append({'timeout': True, 'op': ['?']})
        else:
            recs.extend(r['recs'])
    number(recs)
    j = tlc_judge('Judge_Store', recs, cfg='Judge.cfg', shards=NCPU)
    v.add_judgement('Judge_Store (ILI)', j, {r['id']: r for r in recs},
                    nontrivial=sum(1 for r in recs if r.get('op', ['?'])[0] == 'ili'
                                   and r['pre']['ilis'] != r['post']['ilis']))
    judge_functional(v, 'Judge_Functional (lexicon rows do not depend on the ILI files loaded)',
                     set(functional_pairs(recs)) | set(reference_digests()))
    v.cov['impl_states_explored'] = nstates
    v.cov['rule'] = ('breadth-first over {4 lexicon resources, 1 extension, 3 removals, 3 index files} plus '
                     'all interleavings of two lexicon adds with two index files, the last op repeated; '
                     'non-trivial = an index load that changed the ilis table')
    for r in [r for r in recs if r.get('op', ['?'])[0] == 'ili'][:3]:
        v.sample({'op': r['op'], 'pre_ilis': r['pre']['ilis'], 'post_ilis': r['post']['ilis']})
    return v.finish()
