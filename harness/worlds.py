"""Relational "worlds" for the query engine (C04 C10 C11 C12): several lexicons
given directly as resolved tables (every reference names owner lexicon + id),
plus the materialiser that writes each lexicon as a WN-LMF document using the
documented extension patterns (External* elements for references into the direct
base).  The TLA+ query model (spec/WnQuery.tla) works on the same tables.

tables (lists of lists, JSON/TLC friendly):
  lex      [spec, id, version, lang, base spec | "~", [required specs]]   in order of addition
  synsets  [owner, id, pos, ili]            ili: "" none, "in" proposed, else an ILI id
  entries  [owner, id, pos, lemma]
  senses   [owner, id, entry owner, entry id, synset owner, synset id, entry rank, synset rank]
  ssrels   [defining lexicon, source owner, source id, type, target owner, target id, dc:type | "~", note | "~"]
  srels    same for sense -> sense
  sssrels  same for sense -> synset
"""
from __future__ import annotations

import random

from harness import lmfgen

# (relation types are matched exactly: 'Also' / 'mero-part' / 'Antonym' / 'domain-topic' are
# other types than the names they resemble, whatever SQL's LIKE would make of them)
SYN_TYPES = ['hypernym', 'hyponym', 'also', 'similar', 'weird_type', 'instance_hypernym',
             'mero_part', 'holo_part', 'Also', 'mero-part']
SENSE_TYPES = ['antonym', 'derivation', 'also', 'weird_sense_type', 'pertainym', 'Antonym']
SS_TYPES = ['domain_topic', 'exemplifies', 'other', 'domain-topic']


def spec(id, ver):
    return f'{id}:{ver}'


class World:
    def __init__(self):
        self.lex, self.synsets, self.entries, self.senses = [], [], [], []
        self.ssrels, self.srels, self.sssrels = [], [], []
        self.forms, self.tags = [], []   # [owner, entry owner, entry id, form] / [.., tag]
        # texts attached to senses / synsets: [owner, target owner, target id, text or count]
        self.sexamples, self.yexamples, self.defs, self.counts = [], [], [], []

    # -- construction helpers
    def add_lexicon(self, id, ver, lang='en', base=None, requires=()):
        s = spec(id, ver)
        self.lex.append([s, id, ver, lang, base or '~', list(requires)])
        return s

    def base_of(self, s):
        for l in self.lex:
            if l[0] == s:
                return None if l[4] == '~' else l[4]
        return None

    def tables(self) -> dict:
        return {'lex': self.lex, 'synsets': self.synsets, 'entries': self.entries,
                'senses': self.senses, 'ssrels': self.ssrels, 'srels': self.srels,
                'sssrels': self.sssrels, 'forms': self.forms, 'tags': self.tags,
                'sexamples': self.sexamples, 'yexamples': self.yexamples, 'defs': self.defs,
                'counts': self.counts}

    # -- materialiser --------------------------------------------------
    def document(self, s) -> dict:
        """The lexicon `s' in the loader's normal form."""
        l = next(x for x in self.lex if x[0] == s)
        lex = lmfgen.mini_lexicon(l[1], l[2], l[3], label=f'World lexicon {s}')
        base = None if l[4] == '~' else l[4]
        if base:
            bid, bver = base.split(':', 1)
            lex['extends'] = {'id': bid, 'version': bver}
        if l[5]:
            lex['requires'] = [{'id': r.split(':', 1)[0], 'version': r.split(':', 1)[1]}
                               for r in l[5]]

        def meta(dctype, note):
            m = {}
            if dctype != '~':
                m['type'] = dctype
            if note != '~':
                m['note'] = note
            return m or None
        # synsets: own ones, plus external ones that are referenced
        own_ss = [x for x in self.synsets if x[0] == s]
        ext_ss: dict = {}

        def need_ext_synset(owner, sid):
            if owner != s:
                assert owner == base, (s, owner, sid)
                ext_ss.setdefault(sid, {'id': sid, 'external': True})
        ss_docs = {}
        members: dict = {}
        for x in self.senses:
            if x[0] == s and x[7] != 127:
                members.setdefault((x[4], x[5]), []).append((x[7], x[1]))
        for x in own_ss:
            d = {'id': x[1], 'ili': x[3], 'partOfSpeech': x[2], 'meta': None}
            if x[3] == 'in':
                d['ili_definition'] = {'text': f'proposed {x[1]}', 'meta': None}
            mem = sorted(members.get((s, x[1]), []))
            if mem:
                d['members'] = [m[1] for m in mem]
            ss_docs[x[1]] = d
        for r in self.ssrels:
            if r[0] != s:
                continue
            if r[1] == s:
                src = ss_docs[r[2]]
            else:
                need_ext_synset(r[1], r[2])
                src = ext_ss[r[2]]
            need_ext_synset(r[4], r[5])
            src.setdefault('relations', []).append(
                {'relType': r[3], 'target': r[5], 'meta': meta(r[6], r[7])})
        # entries and senses
        own_e = [x for x in self.entries if x[0] == s]
        e_docs = {}
        ext_e: dict = {}
        for x in own_e:
            e_docs[x[1]] = {'id': x[1], 'meta': None,
                            'lemma': {'writtenForm': x[3], 'partOfSpeech': x[2]}, 'senses': []}
        sense_docs = {}
        ext_senses: dict = {}

        def entry_doc(owner, eid):
            if owner == s:
                return e_docs[eid]
            assert owner == base, (s, owner, eid)
            return ext_e.setdefault(eid, {'id': eid, 'external': True, 'senses': []})
        for x in sorted((x for x in self.senses if x[0] == s), key=lambda x: x[6]):
            ed = entry_doc(x[2], x[3])
            need_ext_synset(x[4], x[5])
            sd = {'id': x[1], 'synset': x[5], 'meta': None}
            ed['senses'].append(sd)
            sense_docs[x[1]] = sd

        def sense_doc(owner, sid):
            if owner == s:
                return sense_docs[sid]
            assert owner == base, (s, owner, sid)
            if sid not in ext_senses:
                so = next(y for y in self.senses if y[0] == owner and y[1] == sid)
                ed = entry_doc(so[2], so[3]) if so[2] == base else None
                if ed is None:   # the sense's entry lives further down the chain
                    raise AssertionError('sense entry not in direct base')
                d = {'id': sid, 'external': True}
                ed['senses'].append(d)
                ext_senses[sid] = d
            return ext_senses[sid]

        def need_ext_sense(owner, sid):
            if owner != s:
                sense_doc(owner, sid)
        for r in self.srels:
            if r[0] != s:
                continue
            src = sense_doc(r[1], r[2])
            need_ext_sense(r[4], r[5])
            src.setdefault('relations', []).append(
                {'relType': r[3], 'target': r[5], 'meta': meta(r[6], r[7])})
        for r in self.sssrels:
            if r[0] != s:
                continue
            src = sense_doc(r[1], r[2])
            need_ext_synset(r[4], r[5])
            src.setdefault('relations', []).append(
                {'relType': r[3], 'target': r[5], 'meta': meta(r[6], r[7])})
        def synset_doc(owner, sid):
            if owner == s:
                return ss_docs[sid]
            need_ext_synset(owner, sid)
            return ext_ss[sid]
        for d in self.defs:
            if d[0] == s:
                synset_doc(d[1], d[2]).setdefault('definitions', []).append({'text': d[3], 'meta': None})
        for d in self.yexamples:
            if d[0] == s:
                synset_doc(d[1], d[2]).setdefault('examples', []).append({'text': d[3], 'meta': None})
        for d in self.sexamples:
            if d[0] == s:
                sense_doc(d[1], d[2]).setdefault('examples', []).append({'text': d[3], 'meta': None})
        for d in self.counts:
            if d[0] == s:
                sense_doc(d[1], d[2]).setdefault('counts', []).append({'value': d[3], 'meta': None})
        for f in self.forms:
            if f[0] == s:
                entry_doc(f[1], f[2]).setdefault('forms', []).append({'writtenForm': f[3]})
        for t in self.tags:
            if t[0] == s:
                ed = entry_doc(t[1], t[2])
                if ed.get('external'):
                    lem = ed.setdefault('lemma', {'external': True})
                else:
                    lem = ed['lemma']
                lem.setdefault('tags', []).append({'text': t[3], 'category': 'c'})
        lex['entries'] = list(ext_e.values()) + list(e_docs.values())
        lex['synsets'] = list(ext_ss.values()) + list(ss_docs.values())
        return lex

    def resource(self, specs, version='1.1') -> dict:
        return {'lmf_version': version, 'lexicons': [self.document(s) for s in specs]}


# ---------------------------------------------------------------------------
# generators
# ---------------------------------------------------------------------------

def fill_lexicon(w: World, s, rng, nsyn, nent, ilis, prefix=None, forms=None,
                 pos_choices=('n', 'n', 'v')):
    """own synsets, entries and senses of lexicon s; entities of its direct base
    may be used as entry / synset of new senses"""
    p = prefix or s.split(':')[0]
    base = w.base_of(s)
    syn_ids = []
    for k in range(nsyn):
        sid = f'{p}-s{k + 1}'
        w.synsets.append([s, sid, rng.choice(pos_choices), rng.choice(ilis)])
        syn_ids.append((s, sid))
    base_syn = [(x[0], x[1]) for x in w.synsets if x[0] == base] if base else []
    base_ent = [(x[0], x[1]) for x in w.entries if x[0] == base] if base else []
    ent_ids = []
    forms = forms or ['cat', 'dog', 'run', 'Cat', 'bank', 'bark']
    for k in range(nent):
        eid = f'{p}-w{k + 1}'
        w.entries.append([s, eid, rng.choice(pos_choices), rng.choice(forms)])
        ent_ids.append((s, eid))
    nsense = 0
    rank_in_entry: dict = {}
    member_rank: dict = {}
    cand_e = ent_ids + base_ent
    cand_s = syn_ids + base_syn
    used = set()
    for e in cand_e:
        if e[0] != s and rng.random() < 0.5:
            continue
        for _ in range(rng.choice([1, 1, 2, 3]) if e[0] == s else 1):
            if not cand_s:
                break
            ss = rng.choice(cand_s)
            nsense += 1
            sid = f'{p}-{e[1]}-{nsense}' if e[0] != s else f'{e[1]}-{nsense}'
            er = rank_in_entry.get(e, 0)
            rank_in_entry[e] = er + 1
            # members order only for own synsets, for about half of the senses
            if ss[0] == s and rng.random() < 0.6:
                sr = member_rank.get(ss, 0)
                member_rank[ss] = sr + 1
            else:
                sr = 127
            w.senses.append([s, sid, e[0], e[1], ss[0], ss[1], er, sr])
            used.add(ss)
    # further forms and lemma tags, on own entries and on entries of the direct base
    for e in cand_e:
        if rng.random() < (0.5 if e[0] != s else 0.3):
            w.forms.append([s, e[0], e[1], rng.choice(forms) + rng.choice(['s', 'es', "'s"])
                            + ('' if e[0] == s else f'-{p}')])
        if rng.random() < 0.3:
            w.tags.append([s, e[0], e[1], f'tag-{p}-{len(w.tags)}'])
    # definitions / examples / counts on own and on base entities
    owners = [s] + ([base] if base else [])
    for y in [(x[0], x[1]) for x in w.synsets if x[0] in owners]:
        for _ in range(rng.choice([0, 1, 1, 2]) if y[0] == s else rng.choice([0, 0, 1])):
            w.defs.append([s, y[0], y[1], f'def {p} {len(w.defs)}'])
        if rng.random() < 0.4:
            w.yexamples.append([s, y[0], y[1], f'ex {p} {len(w.yexamples)}'])
    for x in w.senses:
        if x[0] == s or (x[0] == base and x[2] == base):
            if rng.random() < 0.35:
                w.sexamples.append([s, x[0], x[1], f'sex {p} {len(w.sexamples)}'])
            if rng.random() < 0.3:
                w.counts.append([s, x[0], x[1], rng.randint(1, 9)])
    return syn_ids, ent_ids


def add_relations(w: World, s, rng, n_ss, n_s, n_sss, types=None, dup=0.15):
    """relations defined by lexicon s: sources are own entities or entities of the
    direct base; targets likewise"""
    base = w.base_of(s)
    owners = [s] + ([base] if base else [])
    syn = [(x[0], x[1]) for x in w.synsets if x[0] in owners]
    sen = [(x[0], x[1]) for x in w.senses if x[0] in owners
           and (x[0] == s or x[2] == base)]   # external senses need their entry in the base
    own_syn = [x for x in syn if x[0] == s]
    types = types or SYN_TYPES

    def mk(table, srcs, tgts, typs, n):
        for _ in range(n):
            if not srcs or not tgts:
                return
            a = rng.choice(srcs)
            b = rng.choice(tgts)
            if a[0] != s and b[0] != s and rng.random() < 0.3 and own_syn and table is w.ssrels:
                b = rng.choice(own_syn)
            r = [s, a[0], a[1], rng.choice(typs), b[0], b[1],
                 rng.choice(['~', '~', '~', 't1', 't2']), rng.choice(['~', '~', 'n1'])]
            table.append(r)
            if rng.random() < dup:
                table.append(list(r))
            if rng.random() < dup:     # same relation, other dc:type
                r2 = list(r)
                r2[6] = 't2' if r[6] != 't2' else 't1'
                table.append(r2)
    mk(w.ssrels, syn, syn, types, n_ss)
    mk(w.srels, sen, sen, SENSE_TYPES, n_s)
    mk(w.sssrels, sen, syn, SS_TYPES, n_sss)


def relation_world(rng) -> World:
    """C11: a base, an extension adding relations to base entities, maybe an
    extension of the extension; arbitrary relation multigraphs."""
    w = World()
    b = w.add_lexicon('b', '1')
    fill_lexicon(w, b, rng, rng.randint(2, 4), rng.randint(1, 3), ['', '', 'i1', 'i2'])
    add_relations(w, b, rng, rng.randint(1, 6), rng.randint(0, 3), rng.randint(0, 2))
    x = w.add_lexicon('x', '1', base=b)
    fill_lexicon(w, x, rng, rng.randint(0, 2), rng.randint(0, 2), ['', 'i3'])
    add_relations(w, x, rng, rng.randint(1, 5), rng.randint(0, 3), rng.randint(0, 2))
    if rng.random() < 0.35:
        y = w.add_lexicon('y', '1', base=x)
        fill_lexicon(w, y, rng, rng.randint(0, 1), rng.randint(0, 1), [''])
        add_relations(w, y, rng, rng.randint(1, 3), rng.randint(0, 1), 0)
    return w


def expand_world(rng) -> World:
    """C12: L with partially overlapping ILIs against E (and E2), L declaring a
    dependency on E or not, E installed or missing."""
    w = World()
    ilis = ['i1', 'i2', 'i3', 'i4', 'in', '']
    e = w.add_lexicon('e', '1', lang='en')
    fill_lexicon(w, e, rng, rng.randint(3, 4), rng.randint(0, 2), ilis)
    add_relations(w, e, rng, rng.randint(2, 7), 0, 0, types=['hypernym', 'hyponym', 'also', 'mero_part'])
    if rng.random() < 0.5:
        e2 = w.add_lexicon('f', '2', lang='fr')
        fill_lexicon(w, e2, rng, rng.randint(2, 3), 0, ilis)
        add_relations(w, e2, rng, rng.randint(1, 4), 0, 0, types=['hypernym', 'similar'])
    req = rng.choice([[], ['e:1'], ['e:1', 'zz:9'], ['zz:9'], ['e:1', 'f:2']])
    l = w.add_lexicon('l', '1', lang='de', requires=req)
    fill_lexicon(w, l, rng, rng.randint(2, 4), rng.randint(1, 2), ilis)
    add_relations(w, l, rng, rng.randint(0, 3), 0, 0, types=['hypernym', 'also'])
    if rng.random() < 0.45:
        # another version of the expand lexicon and a lexicon that depends on it
        e2 = w.add_lexicon('e', '2', lang='en')
        fill_lexicon(w, e2, rng, rng.randint(2, 3), 0, ilis)
        add_relations(w, e2, rng, rng.randint(1, 4), 0, 0, types=['hypernym', 'hyponym'])
        # the two versions also declare some of the very same relations (name, source id, target id)
        have = {(x[0], x[1]) for x in w.synsets}
        for r in [r for r in w.ssrels if r[0] == 'e:1' and r[1] == 'e:1' and r[4] == 'e:1']:
            if ('e:2', r[2]) in have and ('e:2', r[5]) in have and rng.random() < 0.7:
                w.ssrels.append(['e:2', 'e:2', r[2], r[3], 'e:2', r[5], r[6], r[7]])
        m = w.add_lexicon('m', '1', lang='de', requires=rng.choice([['e:2'], ['e:2', 'e:1'], ['e:9']]))
        fill_lexicon(w, m, rng, rng.randint(2, 3), 1, ilis)
    if rng.random() < 0.4:
        # the dependent lexicon is installed BEFORE the lexicons it requires
        w.lex.sort(key=lambda l: l[0] != 'l:1')
    return w


def scope_world(rng) -> World:
    """C04 / C10: two versions of one id, an extension of the first, a lexicon in
    another language sharing ILIs, overlapping forms, a dependency."""
    w = World()
    ilis = ['i1', 'i2', 'i3', '', 'in']
    a1 = w.add_lexicon('a', '1')
    fill_lexicon(w, a1, rng, 3, 2, ilis)
    add_relations(w, a1, rng, rng.randint(1, 4), rng.randint(0, 2), rng.randint(0, 1))
    order = rng.random()
    if order < 0.8:
        a2 = w.add_lexicon('a', '2')
        fill_lexicon(w, a2, rng, 3, 2, ilis)      # same ids as a:1
        add_relations(w, a2, rng, rng.randint(1, 3), rng.randint(0, 2), 0)
    x = w.add_lexicon('x', '1', base=a1)
    fill_lexicon(w, x, rng, rng.randint(0, 2), rng.randint(0, 1), ['', 'i4'])
    add_relations(w, x, rng, rng.randint(1, 4), rng.randint(0, 2), rng.randint(0, 1))
    if rng.random() < 0.4:
        # a second version of the extension: a sibling extension with the same ids
        x2 = w.add_lexicon('x', '2', base=a1)
        fill_lexicon(w, x2, rng, rng.randint(1, 2), 1, ['', 'i4'])
        add_relations(w, x2, rng, rng.randint(0, 2), 0, 0)
    if rng.random() < 0.5:
        # an extension of the extension: its senses hang on entries / synsets of x:1
        xx = w.add_lexicon('xx', '1', base=x)
        fill_lexicon(w, xx, rng, rng.randint(1, 2), rng.randint(1, 2), ['', 'i4'])
        add_relations(w, xx, rng, rng.randint(0, 2), rng.randint(0, 1), 0)
    if order < 0.8 and rng.random() < 0.5:
        # an extension of the LATER version of a (whose ids a:1 shares)
        z = w.add_lexicon('z', '1', base=a2)
        fill_lexicon(w, z, rng, rng.randint(1, 2), 1, ['', 'i4'])
        add_relations(w, z, rng, rng.randint(0, 2), rng.randint(0, 1), 0)
    u = w.add_lexicon('u', '1', lang='fr', requires=rng.choice([[], ['a:1'], ['a:2']]))
    fill_lexicon(w, u, rng, rng.randint(2, 3), rng.randint(1, 2), ilis)
    add_relations(w, u, rng, rng.randint(0, 2), 0, 0)
    # adjectives and adjective satellites in every lexicon (taxonomy functions merge the two
    # classes: the complementary class must come from the selection too)
    r2 = random.Random(rng.getrandbits(32))
    if r2.random() < 0.6:
        for y in w.synsets:
            if r2.random() < 0.35:
                y[2] = r2.choice(['a', 's'])
    return w
