"""Materialiser: a lexical resource in the loader's normal form (the dict that
wn.lmf.load returns) -> WN-LMF XML text.  Written independently of wn.lmf.dump
so that the reader, the database layer and the writer can be checked against
each other.  Text payloads may contain any character; attribute values are
written with character references for tab / newline / carriage return so that
XML attribute-value normalisation does not change them."""
from __future__ import annotations

XMLDECL = '<?xml version="1.0" encoding="UTF-8"?>'
SCHEMA = 'http://globalwordnet.github.io/schemas/WN-LMF-{v}.dtd'
DC = {'1.0': 'http://purl.org/dc/elements/1.1/',
      '1.1': 'https://globalwordnet.github.io/schemas/dc/',
      '1.2': 'https://globalwordnet.github.io/schemas/dc/',
      '1.3': 'https://globalwordnet.github.io/schemas/dc/'}
DC_ATTRS = ['contributor', 'coverage', 'creator', 'date', 'description',
            'format', 'identifier', 'publisher', 'relation', 'rights',
            'source', 'subject', 'title', 'type']
OTHER_META = ['status', 'note', 'confidenceScore']


def esc_attr(v: str, quote: str = '"') -> str:
    v = str(v)
    v = v.replace('&', '&amp;').replace('<', '&lt;').replace('>', '&gt;')
    v = v.replace('\t', '&#9;').replace('\n', '&#10;').replace('\r', '&#13;')
    if quote == '"':
        v = v.replace('"', '&quot;')
    else:
        v = v.replace("'", '&apos;')
    return quote + v + quote


def esc_text(v: str) -> str:
    return (str(v).replace('&', '&amp;').replace('<', '&lt;')
            .replace('>', '&gt;').replace('\r', '&#13;'))


class Writer:
    def __init__(self, version: str, quote: str = '"', doctype_quote: str = '"',
                 attr_order=None):
        self.v = version
        self.vt = tuple(int(x) for x in version.split('.'))
        self.q = quote
        self.dq = doctype_quote
        self.lines: list[str] = []
        self.attr_order = attr_order   # callable(list of (k, v)) -> list

    def attrs(self, pairs) -> str:
        pairs = [(k, v) for k, v in pairs if v is not None]
        if self.attr_order:
            pairs = self.attr_order(pairs)
        return ''.join(f' {k}={esc_attr(v, self.q)}' for k, v in pairs)

    def meta(self, m):
        if not m:
            return []
        out = []
        for k in DC_ATTRS:
            if k in m:
                out.append((f'dc:{k}', m[k]))
        for k in OTHER_META:
            if k in m:
                out.append((k, m[k]))
        return out

    def emit(self, indent, s):
        self.lines.append('  ' * indent + s)

    def elem(self, indent, name, pairs, text=None, children=None, preserve=False):
        a = self.attrs(pairs)
        if preserve:
            a += ' xml:space="preserve"'
        if text is None and not children:
            self.emit(indent, f'<{name}{a}/>')
        elif text is not None:
            self.emit(indent, f'<{name}{a}>{esc_text(text)}</{name}>')
        else:
            self.emit(indent, f'<{name}{a}>')
            for c in children:
                c()
            self.emit(indent, f'</{name}>')

    # ------------------------------------------------------------------
    def resource(self, res) -> str:
        d = self.dq
        self.lines = [XMLDECL if d == '"' else XMLDECL.replace('"', "'"),
                      f'<!DOCTYPE LexicalResource SYSTEM {d}{SCHEMA.format(v=self.v)}{d}>',
                      f'<LexicalResource xmlns:dc="{DC[self.v]}">']
        for lex in res['lexicons']:
            self.lexicon(lex)
        self.lines.append('</LexicalResource>')
        return '\n'.join(self.lines) + '\n'

    def lexicon(self, lex):
        ext = lex.get('extends')
        name = 'LexiconExtension' if ext else 'Lexicon'
        pairs = [('id', lex['id']), ('label', lex['label']),
                 ('language', lex['language']), ('email', lex['email']),
                 ('license', lex['license']), ('version', lex['version']),
                 ('url', lex.get('url')), ('citation', lex.get('citation')),
                 ('logo', lex.get('logo'))] + self.meta(lex.get('meta'))
        self.emit(1, f'<{name}{self.attrs(pairs)}>')
        if ext:
            self.elem(2, 'Extends', [('id', ext['id']), ('version', ext['version']),
                                     ('url', ext.get('url'))])
        for req in lex.get('requires', []):
            self.elem(2, 'Requires', [('id', req['id']), ('version', req['version']),
                                      ('url', req.get('url'))])
        for e in lex.get('entries', []):
            self.entry(e)
        for ss in lex.get('synsets', []):
            self.synset(ss)
        for sb in lex.get('frames', []):
            self.frame(2, sb)
        self.emit(1, f'</{name}>')

    def frame(self, ind, sb):
        pairs = [('id', sb.get('id')),
                 ('subcategorizationFrame', sb['subcategorizationFrame'])]
        if sb.get('senses'):
            pairs.append(('senses', ' '.join(sb['senses'])))
        self.elem(ind, 'SyntacticBehaviour', pairs)

    def formlike(self, ind, name, pairs, f):
        kids = []
        for p in f.get('pronunciations', []):
            pp = [('variety', p.get('variety')), ('notation', p.get('notation')),
                  ('phonemic', None if 'phonemic' not in p else
                   ('true' if p['phonemic'] else 'false')),
                  ('audio', p.get('audio'))]
            kids.append(lambda pp=pp, p=p: self.elem(ind + 1, 'Pronunciation', pp, p['text']))
        for t in f.get('tags', []):
            kids.append(lambda t=t: self.elem(ind + 1, 'Tag', [('category', t['category'])],
                                              t['text']))
        self.elem(ind, name, pairs, children=kids)

    def entry(self, e):
        external = e.get('external')
        name = 'ExternalLexicalEntry' if external else 'LexicalEntry'
        pairs = [('id', e['id'])] + ([] if external else self.meta(e.get('meta')))
        self.emit(2, f'<{name}{self.attrs(pairs)}>')
        lem = e.get('lemma')
        if lem is not None:
            if lem.get('external'):
                self.formlike(3, 'ExternalLemma', [], lem)
            else:
                self.formlike(3, 'Lemma', [('writtenForm', lem['writtenForm']),
                                           ('script', lem.get('script')),
                                           ('partOfSpeech', lem['partOfSpeech'])], lem)
        for f in e.get('forms', []):
            if f.get('external'):
                self.formlike(3, 'ExternalForm', [('id', f['id'])], f)
            else:
                self.formlike(3, 'Form', [('id', f.get('id')),
                                          ('writtenForm', f['writtenForm']),
                                          ('script', f.get('script'))], f)
        for s in e.get('senses', []):
            self.sense(s)
        for sb in e.get('frames', []):
            self.frame(3, sb)
        self.emit(2, f'</{name}>')

    def relation(self, ind, name, r):
        self.elem(ind, name, [('relType', r['relType']), ('target', r['target'])]
                  + self.meta(r.get('meta')))

    def example(self, ind, ex):
        self.elem(ind, 'Example', [('language', ex.get('language'))]
                  + self.meta(ex.get('meta')), ex['text'],
                  preserve=bool(ex.get('_preserve')))

    def sense(self, s):
        external = s.get('external')
        name = 'ExternalSense' if external else 'Sense'
        if external:
            pairs = [('id', s['id'])]
        else:
            pairs = [('id', s['id']), ('synset', s['synset']),
                     ('lexicalized', None if 'lexicalized' not in s else
                      ('true' if s['lexicalized'] else 'false')),
                     ('adjposition', s.get('adjposition')),
                     ('subcat', ' '.join(s['subcat']) if s.get('subcat') else None)
                     ] + self.meta(s.get('meta'))
        kids = []
        for r in s.get('relations', []):
            kids.append(lambda r=r: self.relation(4, 'SenseRelation', r))
        for ex in s.get('examples', []):
            kids.append(lambda ex=ex: self.example(4, ex))
        for c in s.get('counts', []):
            kids.append(lambda c=c: self.elem(4, 'Count', self.meta(c.get('meta')),
                                              str(c['value'])))
        self.elem(3, name, pairs, children=kids)

    def synset(self, ss):
        external = ss.get('external')
        name = 'ExternalSynset' if external else 'Synset'
        if external:
            pairs = [('id', ss['id'])]
        else:
            pairs = [('id', ss['id']), ('ili', ss['ili']),
                     ('partOfSpeech', ss.get('partOfSpeech')),
                     ('lexicalized', None if 'lexicalized' not in ss else
                      ('true' if ss['lexicalized'] else 'false')),
                     ('members', ' '.join(ss['members']) if ss.get('members') else None),
                     ('lexfile', ss.get('lexfile'))] + self.meta(ss.get('meta'))
        kids = []
        for d in ss.get('definitions', []):
            kids.append(lambda d=d: self.elem(
                3, 'Definition', [('language', d.get('language')),
                                  ('sourceSense', d.get('sourceSense'))]
                + self.meta(d.get('meta')), d['text'], preserve=bool(d.get('_preserve'))))
        if ss.get('ili_definition'):
            idf = ss['ili_definition']
            kids.append(lambda idf=idf: self.elem(3, 'ILIDefinition',
                                                  self.meta(idf.get('meta')), idf['text']))
        for r in ss.get('relations', []):
            kids.append(lambda r=r: self.relation(3, 'SynsetRelation', r))
        for ex in ss.get('examples', []):
            kids.append(lambda ex=ex: self.example(3, ex))
        self.elem(2, name, pairs, children=kids)


def to_xml(resource: dict, **kw) -> str:
    return Writer(resource['lmf_version'], **kw).resource(resource)


def mini_lexicon(id, version='1', language='en', **kw) -> dict:
    lex = {'id': id, 'version': version, 'label': kw.pop('label', f'L {id}'),
           'language': language, 'email': 'e@example.org', 'license': 'lic',
           'meta': None, 'entries': [], 'synsets': []}
    lex.update(kw)
    return lex
