"""The store universe U (DESIGN.md section 3): seven related lexicons with small but
complete content (every table of schema.sql gets rows; extensions contribute
to base entities), the resources that bundle them, ILI index files and the
abstract description (spec/universe.json) that the TLA+ store model reads.

One source of truth: `lexicons()` builds the documents in the loader's normal
form; `abstract()` derives from those documents what the model needs."""
from __future__ import annotations

import copy
import json
from pathlib import Path

M = {'note': 'n1'}


def _lex(id, version, lang, label, **kw):
    d = {'id': id, 'version': version, 'label': label, 'language': lang,
         'email': f'{id}@example.org', 'license': 'https://lic/' + id,
         'meta': None, 'entries': [], 'synsets': []}
    d.update(kw)
    return d


def lex_a(version):
    v = version
    L = _lex('a', v, 'en', f'Lexicon A v{v}', url='https://a.example/',
             citation='A cite', logo='logo.png',
             meta={'description': 'desc A', 'publisher': 'pub'})
    L['frames'] = [{'id': 'a-sb1', 'subcategorizationFrame': 'Somebody ----s'},
                   {'id': 'a-sb2', 'subcategorizationFrame': 'Something ----s something'}]
    L['entries'] = [
        {'id': 'a-w1', 'meta': {'note': 'entry note'},
         'lemma': {'writtenForm': 'cat', 'partOfSpeech': 'n', 'script': 'Latn',
                   'pronunciations': [{'text': 'kat', 'variety': 'GB', 'notation': 'ipa',
                                       'phonemic': False, 'audio': 'cat.ogg'}],
                   'tags': [{'text': 'sg', 'category': 'number'}]},
         'forms': [{'id': 'a-w1-f1', 'writtenForm': 'cats',
                    'tags': [{'text': 'pl', 'category': 'number'}]},
                   {'writtenForm': 'Kat', 'script': 'Latf'}],
         'senses': [
             {'id': 'a-w1-1', 'synset': 'a-s1', 'meta': {'confidenceScore': '0.9'},
              'relations': [{'relType': 'antonym', 'target': 'a-w2-1', 'meta': None},
                            {'relType': 'domain_topic', 'target': 'a-s2', 'meta': M}],
              'examples': [{'text': 'the cat sat', 'language': 'en', 'meta': None}],
              'counts': [{'value': 7, 'meta': M}], 'subcat': ['a-sb1']},
             {'id': 'a-w1-2', 'synset': 'a-s2', 'meta': None, 'lexicalized': False,
              'adjposition': 'a'}]},
        {'id': 'a-w2', 'meta': None,
         'lemma': {'writtenForm': 'dog', 'partOfSpeech': 'v'},
         'senses': [{'id': 'a-w2-1', 'synset': 'a-s3', 'meta': None,
                     'relations': [{'relType': 'derivation', 'target': 'a-w1-1', 'meta': None}],
                     'subcat': ['a-sb1', 'a-sb2']}]},
    ]
    L['synsets'] = [
        {'id': 'a-s1', 'ili': 'i1', 'partOfSpeech': 'n', 'meta': {'note': 'ss'},
         'lexfile': 'noun.animal', 'members': ['a-w1-1'],
         'definitions': [{'text': 'a feline', 'language': 'en', 'sourceSense': 'a-w1-1',
                          'meta': M},
                         {'text': 'second definition', 'meta': None}],
         'relations': [{'relType': 'hypernym', 'target': 'a-s2', 'meta': None},
                       {'relType': 'also', 'target': 'a-s3', 'meta': {'type': 't1'}}],
         'examples': [{'text': 'synset example', 'meta': None}]},
        {'id': 'a-s2', 'ili': 'i2' if v == '1' else 'i3', 'partOfSpeech': 'n',
         'meta': None, 'lexicalized': False,
         'relations': [{'relType': 'hyponym', 'target': 'a-s1', 'meta': None}]},
        {'id': 'a-s3', 'ili': 'in', 'partOfSpeech': 'v', 'meta': None,
         'lexfile': 'verb.motion',
         'ili_definition': {'text': 'proposed concept of dogging', 'meta': M}},
        {'id': 'a-s4', 'ili': '', 'partOfSpeech': 'n', 'meta': None},
    ]
    if v == '2':
        L['entries'][0]['forms'].append({'writtenForm': 'kitty'})
        L['synsets'][0]['definitions'][0]['text'] = 'a feline (v2)'
    return L


def lex_x():
    L = _lex('x', '1', 'en', 'Extension X of A', extends={'id': 'a', 'version': '1'},
             meta={'description': 'ext'})
    # a frame of the extension with the text of one of A's frames, linked (through the
    # senses list) to a sense of A and to a sense of its own
    L['frames'] = [{'id': 'x-sb1', 'subcategorizationFrame': 'Somebody ----s',
                    'senses': ['a-w1-1', 'x-w1-1']}]
    L['entries'] = [
        {'id': 'a-w1', 'external': True,
         'lemma': {'external': True,
                   'pronunciations': [{'text': 'kaet', 'variety': 'US'}],
                   'tags': [{'text': 'x-lemma-tag', 'category': 'xcat'}]},
         'forms': [{'id': 'a-w1-f1', 'external': True,
                    'tags': [{'text': 'x-form-tag', 'category': 'xcat'}]},
                   {'writtenForm': 'catz', 'id': 'x-f1'}],
         'senses': [{'id': 'a-w1-1', 'external': True,
                     'relations': [{'relType': 'similar', 'target': 'x-w1-1', 'meta': None}],
                     'examples': [{'text': 'x example on a sense', 'meta': None}],
                     'counts': [{'value': 3, 'meta': None}]},
                    {'id': 'x-a-w1-3', 'synset': 'a-s4', 'meta': None}]},
        {'id': 'x-w1', 'meta': None,
         'lemma': {'writtenForm': 'lynx', 'partOfSpeech': 'n'},
         'senses': [{'id': 'x-w1-1', 'synset': 'x-s1', 'meta': None},
                    {'id': 'x-w1-2', 'synset': 'a-s1', 'meta': None}]},
    ]
    L['synsets'] = [
        {'id': 'a-s2', 'external': True,
         'definitions': [{'text': 'x definition of a-s2', 'meta': None}],
         'relations': [{'relType': 'similar', 'target': 'x-s1', 'meta': None}],
         'examples': [{'text': 'x example on synset', 'meta': None}]},
        {'id': 'a-s1', 'external': True},
        {'id': 'a-s4', 'external': True},
        {'id': 'x-s1', 'ili': 'i4', 'partOfSpeech': 'n', 'meta': None,
         'lexfile': 'noun.x',
         # a definition for an existing ILI (validate's W304): kept only while the ILI is
         # merely presupposed; f3 lists i4 without any definition
         'ili_definition': {'text': 'what x says i4 is', 'meta': None},
         'relations': [{'relType': 'hypernym', 'target': 'a-s1', 'meta': None}]},
    ]
    return L


def lex_y():
    L = _lex('y', '1', 'en', 'Extension Y of X', extends={'id': 'x', 'version': '1'})
    L['entries'] = [
        {'id': 'x-w1', 'external': True,
         'lemma': {'external': True, 'tags': [{'text': 'y-tag', 'category': 'ycat'}]},
         'senses': [{'id': 'x-w1-1', 'external': True,
                     'examples': [{'text': 'y example', 'meta': None}]},
                    {'id': 'y-x-w1-9', 'synset': 'y-s1', 'meta': None}]},
    ]
    L['synsets'] = [
        {'id': 'x-s1', 'external': True,
         'relations': [{'relType': 'eq_synonym', 'target': 'y-s1', 'meta': None}]},
        {'id': 'y-s1', 'ili': 'i5', 'partOfSpeech': 'n', 'meta': None,
         'relations': [{'relType': 'hypernym', 'target': 'x-s1', 'meta': None}]},
    ]
    return L


def lex_r():
    L = _lex('r', '1', 'en', 'Requirer R',
             requires=[{'id': 'a', 'version': '1', 'url': 'https://a.example/a1.xml'},
                       {'id': 'zz', 'version': '9'}])
    L['entries'] = [{'id': 'r-w1', 'meta': None,
                     'lemma': {'writtenForm': 'cat', 'partOfSpeech': 'n'},
                     'senses': [{'id': 'r-w1-1', 'synset': 'r-s1', 'meta': None}]}]
    L['synsets'] = [{'id': 'r-s1', 'ili': 'i1', 'partOfSpeech': 'n', 'meta': None},
                    {'id': 'r-s2', 'ili': 'i6', 'partOfSpeech': 'n', 'meta': None,
                     'relations': [{'relType': 'mero_part', 'target': 'r-s1', 'meta': None}]}]
    return L


def lex_u():
    L = _lex('u', '2', 'fr', 'Unrelated U')
    L['entries'] = [{'id': 'u-w1', 'meta': None,
                     'lemma': {'writtenForm': 'chat', 'partOfSpeech': 'n'},
                     'senses': [{'id': 'u-w1-1', 'synset': 'u-s1', 'meta': None}]}]
    L['synsets'] = [{'id': 'u-s1', 'ili': 'i2', 'partOfSpeech': 'n', 'meta': None,
                     'lexfile': 'nom.animal',
                     # f1 lists i2 with an empty definition, f3 with none
                     'ili_definition': {'text': 'what u says i2 is', 'meta': None},
                     'relations': [{'relType': 'weird_type', 'target': 'u-s2', 'meta': None}]},
                    {'id': 'u-s2', 'ili': 'in', 'partOfSpeech': 'n', 'meta': None}]
    return L


def lex_ab():
    L = _lex('ab', '1.0+b', 'en', 'Prefix AB')
    L['entries'] = [{'id': 'ab-w1', 'meta': None,
                     'lemma': {'writtenForm': 'abacus', 'partOfSpeech': 'n'},
                     'senses': [{'id': 'ab-w1-1', 'synset': 'ab-s1', 'meta': None}]}]
    L['synsets'] = [{'id': 'ab-s1', 'ili': 'i7', 'partOfSpeech': 'n', 'meta': None}]
    return L


def lex_f():
    """frames: lexicon-level (1.1 style) with an explicit senses list on one frame
    and subcat references; resource Rf10 carries the same lexicon in 1.0 style"""
    L = _lex('f', '1', 'en', 'Frames F')
    L['frames'] = [{'id': 'f-sb1', 'subcategorizationFrame': 'Somebody ----s', 'senses': ['f-w1-1']},
                   {'id': 'f-sb2', 'subcategorizationFrame': 'Something ----s something'}]
    L['entries'] = [
        {'id': 'f-w1', 'meta': None, 'lemma': {'writtenForm': 'give', 'partOfSpeech': 'v'},
         'senses': [{'id': 'f-w1-1', 'synset': 'f-s1', 'meta': None},
                    {'id': 'f-w1-2', 'synset': 'f-s2', 'meta': None, 'subcat': ['f-sb2']}]},
        {'id': 'f-w2', 'meta': None, 'lemma': {'writtenForm': 'take', 'partOfSpeech': 'v'},
         'senses': [{'id': 'f-w2-1', 'synset': 'f-s1', 'meta': None, 'subcat': ['f-sb1', 'f-sb2']}]},
        {'id': 'f-w3', 'meta': None, 'lemma': {'writtenForm': 'hold', 'partOfSpeech': 'v'},
         'senses': [{'id': 'f-w3-1', 'synset': 'f-s2', 'meta': None, 'subcat': ['f-sb2']}]},
    ]
    L['synsets'] = [{'id': 'f-s1', 'ili': 'i7', 'partOfSpeech': 'v', 'meta': None},
                    {'id': 'f-s2', 'ili': '', 'partOfSpeech': 'v', 'meta': None}]
    return L


def to_entry_frames(L):
    """the same frame-sense links written the WN-LMF 1.0 way (frames on entries;
    the same frame string on several entries, with and without a senses list)"""
    frames = {f['id']: f for f in L.pop('frames')}
    links = {}
    for f in frames.values():
        for sid in f.get('senses', []):
            links.setdefault(sid, []).append(f['subcategorizationFrame'])
    for e in L['entries']:
        per = {}
        for s_ in e['senses']:
            for sb in s_.pop('subcat', []):
                links.setdefault(s_['id'], []).append(frames[sb]['subcategorizationFrame'])
            for fr in links.get(s_['id'], []):
                per.setdefault(fr, []).append(s_['id'])
        out = []
        for fr, sids in per.items():
            d = {'subcategorizationFrame': fr}
            if len(sids) != len(e['senses']):
                d['senses'] = sids
            out.append(d)
        if out:
            e['frames'] = out
    return L


def lexicons() -> dict:
    return {'a:1': lex_a('1'), 'a:2': lex_a('2'), 'x:1': lex_x(), 'y:1': lex_y(),
            'r:1': lex_r(), 'u:2': lex_u(), 'ab:1.0+b': lex_ab(), 'f:1': lex_f()}


RESOURCES = {
    'Ra1': ['a:1'], 'Ra2': ['a:2'], 'Rx': ['x:1'], 'Ry': ['y:1'], 'Rr': ['r:1'],
    'Ru': ['u:2'], 'Rab': ['ab:1.0+b'],
    'Rar': ['a:1', 'r:1'],       # two lexicons in one file
    'Rax': ['a:1', 'x:1'],       # base + its extension in one file
    'Rxa': ['x:1', 'a:1'],       # extension listed before its base
    'Raa': ['a:1', 'a:1'],       # duplicate lexicon: fails as a whole
    'Rua': ['u:2', 'a:2'],
    'Rf11': ['f:1'],             # lexicon-level frames with subcat (WN-LMF 1.1+)
    'Rf10': ['f:1'],             # the same lexicon with entry-level frames (WN-LMF 1.0 style)
}

# ILI index files: id -> (status or None for "no status column value", definition or None)
ILI_FILES = {
    'f1': {'header': 'ili\tstatus\tdefinition',
           'rows': [('i1', 'active', 'def of i1'), ('i2', 'provisional', ''),
                    ('i8', 'deprecated', 'unused concept')]},
    'f2': {'header': 'ILI\tdefinition',
           'rows': [('i1', None, 'other def of i1'), ('i3', None, 'def of i3'),
                    ('i9', None, None)]},
    'f3': {'header': 'ili\tstatus',
           'rows': [('i2', 'weird-status', None), ('i4', 'active', None)]},
    # every column title in upper / mixed case
    'f4': {'header': 'ILI\tSTATUS\tDefinition',
           'rows': [('i5', 'deprecated', 'f4 on i5'), ('i2', 'provisional', 'f4 on i2'),
                    ('i7', 'active', '')]},
}


def resource(name: str, version='1.3') -> dict:
    lx = lexicons()
    res = {'lmf_version': version,
           'lexicons': [copy.deepcopy(lx[s]) for s in RESOURCES[name]]}
    if name == 'Rf10':
        res['lmf_version'] = '1.0'
        res['lexicons'] = [to_entry_frames(L) for L in res['lexicons']]
    return res


def ili_text(name: str, crlf=False) -> str:
    f = ILI_FILES[name]
    ncol = len(f['header'].split('\t'))
    lines = [f['header']]
    for r in f['rows']:
        cols = [r[0]]
        hdr = f['header'].lower().split('\t')
        if 'status' in hdr:
            cols.append(r[1] or '')
        if 'definition' in hdr:
            if r[2] is not None:
                cols.append(r[2])
        lines.append('\t'.join(cols))
    nl = '\r\n' if crlf else '\n'
    return nl.join(lines) + nl


def _senses(e):
    return e.get('senses', [])


def abstract() -> dict:
    """What the TLA+ store model needs to know about U."""
    out = {'lex': [], 'res': [], 'ili': []}
    for spec, L in lexicons().items():
        ilis = []
        proposed = 0
        lexfiles = set()
        for ss in L['synsets']:
            if ss.get('external'):
                continue
            if ss['ili'] == 'in':
                proposed += 1
            elif ss['ili']:
                d = ss.get('ili_definition')
                ilis.append([ss['id'], ss['ili'], d['text'] if d else '~'])
            if ss.get('lexfile'):
                lexfiles.add(ss['lexfile'])
        rels = set()
        for ss in L['synsets']:
            rels |= {r['relType'] for r in ss.get('relations', [])}
        for e in L['entries']:
            for s in _senses(e):
                rels |= {r['relType'] for r in s.get('relations', [])}
        # tags / pronunciations attached to forms of the base (ownerless rows)
        extras = 0
        for e in L['entries']:
            if e.get('external'):
                lem = e.get('lemma') or {}
                extras += len(lem.get('tags', [])) + len(lem.get('pronunciations', []))
                for f in e.get('forms', []):
                    if f.get('external'):
                        extras += len(f.get('tags', [])) + len(f.get('pronunciations', []))
        own = 0
        for e in L['entries']:
            lem = e.get('lemma') or {}
            if not lem.get('external'):
                own += len(lem.get('tags', [])) + len(lem.get('pronunciations', []))
            for f in e.get('forms', []):
                if not f.get('external'):
                    own += len(f.get('tags', [])) + len(f.get('pronunciations', []))
        ext = L.get('extends')
        out['lex'].append({
            'spec': spec, 'id': L['id'], 'version': L['version'], 'lang': L['language'],
            'label': L['label'],
            'base': f"{ext['id']}:{ext['version']}" if ext else '~',
            'requires': [f"{r['id']}:{r['version']}" for r in L.get('requires', [])],
            'ilis': ilis, 'proposed': proposed,
            'reltypes': sorted(rels), 'lexfiles': sorted(lexfiles),
            'extras_on_base': extras, 'own_extras': own})
    for name, specs in RESOURCES.items():
        out['res'].append({'name': name, 'lex': specs})
    for name, f in ILI_FILES.items():
        rows = []
        hdr = f['header'].lower().split('\t')
        for r in f['rows']:
            rows.append([r[0], (r[1] or 'active') if 'status' in hdr else 'active',
                         r[2] if ('definition' in hdr and r[2] is not None) else '~'])
        out['ili'].append({'name': name, 'rows': rows})
    return out


def write_abstract(path: Path):
    path.write_text(json.dumps(abstract(), indent=1, sort_keys=True) + '\n')


if __name__ == '__main__':
    write_abstract(Path(__file__).resolve().parent.parent / 'spec' / 'universe.json')
