"""Driver: hypernym graphs -> lexicons in a scratch database -> taxonomy /
similarity / information-content batteries on the real code.

job = {'graphs': [graph, ...], 'want': ['c13', 'c14', 'c15'], ...}
graph = {'id': int, 'n': int, 'hyp': [[x, y, 'hypernym'|'instance_hypernym'], ...],
         'hypo': [[x, y], ...], 'pos': [...], 'words': {...}, 'corpus': [...], ...}
The result carries one observation record per graph.
"""
from __future__ import annotations

import math
import sys
from fractions import Fraction
from pathlib import Path

import wn
import wn.taxonomy
import wn.similarity
import wn.ic

from harness import lmfgen
from harness.wnenv import fresh_db, base_dir, main_loop, exc_name, JobTimeout, limit


def graph_lexicons(g) -> list:
    """The lexicon(s) of one graph.  With g['xnodes'] / g['xhyp'] / g['xhypo'] the
    graph is spread over a lexicon and an extension of it: the listed nodes are synsets
    of the extension, the listed edges (and every edge that touches an extension
    node) are declared by the extension on external synsets.  A Wordnet over both
    lexicons sees the same graph."""
    lid = f"g{g['id']}"
    xid = lid + 'x'
    lex = lmfgen.mini_lexicon(lid)
    n = g['n']
    xnodes = set(g.get('xnodes', []))
    split = bool(xnodes or g.get('xhyp') or g.get('xhypo'))
    own = {False: [], True: []}            # synsets of the lexicon / of the extension
    external = {}
    by_node = {}
    for x in range(1, n + 1):
        d = {'id': f'{lid}-s{x}', 'ili': '', 'partOfSpeech': g['pos'][x - 1],
             'relations': [], 'meta': None}
        by_node[x] = d
        own[x in xnodes].append(d)

    def declare(k, e, key, default):
        inx = k in g.get(key, []) or e[0] in xnodes or e[1] in xnodes
        rel = {'relType': e[2] if len(e) > 2 else default, 'target': f'{lid}-s{e[1]}', 'meta': None}
        def ext(x):
            return external.setdefault(x, {'id': f'{lid}-s{x}', 'external': True, 'relations': []})
        if not inx:
            by_node[e[0]]['relations'].append(rel)
            return
        # what an extension refers to in its base has to be declared as external
        if e[1] not in xnodes:
            ext(e[1])
        if e[0] in xnodes:
            by_node[e[0]]['relations'].append(rel)
        else:
            ext(e[0])['relations'].append(rel)
    for k, e in enumerate(g['hyp']):
        declare(k, e, 'xhyp', 'hypernym')
    for k, e in enumerate(g.get('hypo', [])):
        declare(k, e, 'xhypo', 'hyponym')
    for k, e in enumerate(g.get('other', [])):
        declare(k, e, 'xother', e[2])
    lex['synsets'] = own[False]
    # words: {'form': [[synset index, pos-of-entry], ...]}
    entries = {False: [], True: []}
    k = 0
    for form, senses in g.get('words', []):
        bykey = {}
        for sx in senses:
            bykey.setdefault((sx in xnodes, g['pos'][sx - 1]), []).append(sx)
        for (inx, pos), sxs in sorted(bykey.items()):
            k += 1
            entries[inx].append({
                'id': f'{lid}-w{k}', 'meta': None,
                'lemma': {'writtenForm': form, 'partOfSpeech': pos},
                'senses': [{'id': f'{lid}-w{k}-{sx}', 'synset': f'{lid}-s{sx}',
                            'meta': None} for sx in sxs]})
    lex['entries'] = entries[False]
    if not split:
        return [lex]
    ext = lmfgen.mini_lexicon(xid)
    ext['extends'] = {'id': lid, 'version': '1'}
    ext['entries'] = entries[True]
    ext['synsets'] = [external[x] for x in sorted(external)] + own[True]
    return [lex, ext]


def scope_of(g) -> str:
    lid = f"g{g['id']}"
    if g.get('xnodes') or g.get('xhyp') or g.get('xhypo'):
        return f'{lid}:1 {lid}x:1'
    return f'{lid}:1'


def idx(ss) -> int:
    if ss.id == '*ROOT*':
        return 0
    return int(ss.id.rsplit('-s', 1)[1])


def rat(x: float, tol=1e-9):
    """float -> [num, den] (exact small rational) or a string for special values"""
    if isinstance(x, int):
        return [x, 1]
    if math.isinf(x):
        return 'inf'
    if math.isnan(x):
        return 'nan'
    f = Fraction(x).limit_denominator(10_000)
    if abs(float(f) - x) > tol * max(1.0, abs(x)) or abs(f.numerator) > 30_000:
        return 'inexact:' + repr(x)
    return [f.numerator, f.denominator]


def call(f, *a, **k):
    """-> (status, value): status 'ok' | 'err' (wn.Error) | 'exc:<class>'"""
    try:
        return 'ok', f(*a, **k)
    except JobTimeout:
        raise
    except wn.Error:
        return 'err', None
    except Exception as e:
        return 'exc:' + exc_name(e), None


def ids(st_v):
    st, v = st_v
    return [st, [idx(y) for y in v] if st == 'ok' else []]


def skw(sim, salt=0):
    """simulate_root as keyword: True when set; when not set, left out (the documented
    default) for even salt and passed as False for odd salt"""
    if sim:
        return {'simulate_root': True}
    return {} if salt % 2 == 0 else {'simulate_root': False}


def battery13(g, w, ss):
    n = g['n']
    o = {'paths': [], 'mind': [], 'maxd': [], 'pairs': []}
    for sim in (False, True):
        for x in range(1, n + 1):
            st, ps = call(ss[x].hypernym_paths, **skw(sim, x))
            o['paths'].append([x, sim, st, [[idx(y) for y in p] for p in ps]
                               if st == 'ok' else []])
            st, d = call(ss[x].min_depth, **skw(sim, x + 1))
            o['mind'].append([x, sim, st, d if st == 'ok' else -1])
            st, d = call(ss[x].max_depth, **skw(sim, x))
            o['maxd'].append([x, sim, st, d if st == 'ok' else -1])
        for a in range(1, n + 1):
            for b in range(1, n + 1):
                ch = ids(call(ss[a].common_hypernyms, ss[b], **skw(sim, a + b)))
                lch = ids(call(ss[a].lowest_common_hypernyms, ss[b], **skw(sim, a + b + 1)))
                sp = ids(call(ss[a].shortest_path, ss[b], **skw(sim, a)))
                o['pairs'].append([a, b, sim] + ch + lch + sp)
    # the same through the functions of wn.taxonomy, with their default arguments
    T = wn.taxonomy
    for x in range(1, n + 1):
        st, ps = call(T.hypernym_paths, ss[x])
        o['paths'].append([x, False, st, [[idx(y) for y in p] for p in ps] if st == 'ok' else []])
        st, d = call(T.min_depth, ss[x])
        o['mind'].append([x, False, st, d if st == 'ok' else -1])
        st, d = call(T.max_depth, ss[x])
        o['maxd'].append([x, False, st, d if st == 'ok' else -1])
    for a in range(1, n + 1):
        for b in range(1, n + 1):
            if (a + 2 * b) % 3 == 0:
                o['pairs'].append([a, b, False] + ids(call(T.common_hypernyms, ss[a], ss[b]))
                                  + ids(call(T.lowest_common_hypernyms, ss[a], ss[b]))
                                  + ids(call(T.shortest_path, ss[a], ss[b])))
    o['bypos'] = []
    for pos in sorted(set(g['pos']) | {'n', 'a', 's'}):
        r = ids(call(wn.taxonomy.roots, w, pos=pos))
        l = ids(call(wn.taxonomy.leaves, w, pos=pos))
        st, t = call(wn.taxonomy.taxonomy_depth, w, pos)
        o['bypos'].append([pos, r[0], sorted(r[1]), l[0], sorted(l[1]), st,
                           t if st == 'ok' else -1])
    return o


def val(st_v, conv=None):
    """(status, float) -> [status, num, den]; special values become statuses"""
    st, v = st_v
    if st != 'ok':
        return [st, 0, 1]
    if conv:
        try:
            v = conv(v)
        except (OverflowError, ZeroDivisionError, ValueError):
            return ['inexact', 0, 1]
    r = rat(v)
    if isinstance(r, str):
        return [r.split(':')[0], 0, 1]
    return ['ok', r[0], r[1]]


def battery14(g, w, ss):
    n = g['n']
    o = {'sim': [], 'lch': []}
    mds = g.get('lch_depths', [1, 3])
    for sim in (False, True):
        for a in range(1, n + 1):
            for b in range(1, n + 1):
                p = val(call(wn.similarity.path, ss[a], ss[b], **skw(sim, a + b)))
                wu = val(call(wn.similarity.wup, ss[a], ss[b], **skw(sim, a)))
                o['sim'].append([a, b, sim] + p + wu)
                for md in mds:
                    # lch = -log q  ->  q
                    o['lch'].append([a, b, sim, md] + val(
                        call(wn.similarity.lch, ss[a], ss[b], md, **skw(sim, b)),
                        lambda v: math.exp(-v)))
    o['ic'] = []
    for wi, weights in enumerate(g.get('weights', [])):
        # weights: positive ints per synset (index x-1) and a total per pos
        freq = {p: {} for p in ('n', 'v', 'a', 'r')}
        # every synset gets its weight in every table: hypernyms of another
        # part of speech are outside the property, but must not crash the run
        for x in range(1, n + 1):
            for p in freq:
                freq[p][ss[x].id] = float(weights['w'][x - 1])
        for p in freq:
            freq[p][None] = float(weights['total'])
        for a in range(1, n + 1):
            for b in range(1, n + 1):
                # res = -log p0 -> p0 ; jcn = 1/log(p0^2/(p1 p2)) -> p0^2/(p1 p2)
                r = val(call(wn.similarity.res, ss[a], ss[b], freq),
                        lambda v: math.exp(-v))
                jst, jv = call(wn.similarity.jcn, ss[a], ss[b], freq)
                if jst == 'ok' and jv == 0:
                    j = ['zero', 0, 1]
                elif jst == 'ok' and math.isinf(jv):
                    j = ['inf', 0, 1]
                else:
                    j = val((jst, jv), lambda v: math.exp(1.0 / v))
                li = val(call(wn.similarity.lin, ss[a], ss[b], freq))
                o['ic'].append([wi, a, b] + r + j + li)
    return o


def battery15(g, w, ss):
    n = g['n']
    o = {'freq': [], 'tot': [], 'prob': [], 'meta': []}
    for ci, c in enumerate(g.get('corpora', [])):
        sm = Fraction(c['smoothing'][0], c['smoothing'][1])
        if c.get('defaults'):      # the documented defaults: distribute_weight=True, smoothing=1.0
            st, res = call(wn.ic.compute, c['tokens'], w)
        else:
            st, res = call(wn.ic.compute, c['tokens'], w, distribute_weight=c['distribute'],
                           smoothing=float(sm))
        o['meta'].append([ci, st, sorted(k for k in res) if st == 'ok' else []])
        if st != 'ok':
            continue
        for pos in sorted(res):
            m = res[pos]
            o['tot'].append([ci, pos] + val(('ok', m[None])))
            for k, v in m.items():
                if k is not None:
                    o['freq'].append([ci, pos, int(k.rsplit('-s', 1)[1])] + val(('ok', v)))
        if sm > 0:
            for x in range(1, n + 1):
                if g['pos'][x - 1] not in ('n', 'v', 'a', 's', 'r'):
                    continue       # no information content outside these parts of speech
                o['prob'].append([ci, x]
                                 + val(call(wn.ic.synset_probability, ss[x], res))
                                 + val(call(wn.ic.information_content, ss[x], res),
                                       lambda v: math.exp(-v)))
    return o


def battery15_load(g, base):
    """wn.ic.load() on a WordNet::Similarity style file generated for a copy of the
    graph lexicon whose synset ids follow the <lexicon>-<offset:08>-<pos> scheme"""
    n = g['n']
    lid = f"i{g['id']}"
    lex = lmfgen.mini_lexicon(lid)
    # offsets with several digits (x * 37): the file format is <offset><pos letter>
    lex['synsets'] = [{'id': f'{lid}-{x * 37:08}-{g["pos"][x - 1]}', 'ili': '',
                       'partOfSpeech': g['pos'][x - 1], 'meta': None} for x in range(1, n + 1)]
    p = base / 'iclex.xml'
    p.write_text(lmfgen.to_xml({'lmf_version': '1.0', 'lexicons': [lex]}), encoding='utf-8')
    wn.add(p, progress_handler=None)
    w = wn.Wordnet(f'{lid}:1')
    out = []
    for fi, f in enumerate(g.get('icfiles', [])):
        path = base / f'ic{fi}.dat'
        lines = ['wnver::eOS9lXC6GvMWznF1wkZofDdtbBU']
        for x, weight, root in f['rows']:
            lines.append(f'{x * 37}{g["pos"][x - 1] if g["pos"][x - 1] != "s" else "a"} {weight}'
                         + (' ROOT' if root else ''))
        path.write_text('\n'.join(lines) + '\n')
        st, res = call(wn.ic.load, path, w)
        row = {'fi': fi, 'st': st, 'keys': sorted(res) if st == 'ok' else [], 'tot': [], 'w': []}
        if st == 'ok':
            for pos in sorted(res):
                row['tot'].append([pos] + val(('ok', res[pos][None])))
                for k, v_ in res[pos].items():
                    if k is not None:
                        row['w'].append([pos, int(k.split('-')[-2]) // 37] + val(('ok', v_)))
        out.append(row)
    wn.remove(f'{lid}:1', progress_handler=None)
    return out


def handle(job):
    graphs = job['graphs']
    d = fresh_db('tax')
    lexs = [lx for g in graphs for lx in graph_lexicons(g)]
    # (an extension in the same file as its base would be skipped: the base has to be
    # installed when the file is scanned)
    for name, part in (('graphs.xml', [lx for lx in lexs if 'extends' not in lx]),
                       ('graphs-x.xml', [lx for lx in lexs if 'extends' in lx])):
        if part:
            p = base_dir() / name
            p.write_text(lmfgen.to_xml({'lmf_version': '1.3', 'lexicons': part}), encoding='utf-8')
            wn.add(p, progress_handler=None)
    out = []
    for g in graphs:
        lid = f"g{g['id']}"
        w = wn.Wordnet(scope_of(g), expand='')
        ss = {x: w.synset(f'{lid}-s{x}') for x in range(1, g['n'] + 1)}
        o = {'id': g['id']}
        try:
            with limit(job.get('graph_timeout', 20)):
                if 'c13' in job['want']:
                    o['c13'] = battery13(g, w, ss)
                if 'c14' in job['want']:
                    o['c14'] = battery14(g, w, ss)
                if 'c15' in job['want']:
                    o['c15'] = battery15(g, w, ss)
                    o['c15']['load'] = battery15_load(g, base_dir())
        except JobTimeout:
            o = {'id': g['id'], 'timeout': True}
        out.append(o)
    return {'obs': out}


if __name__ == '__main__':
    main_loop(handle, per_job_timeout=3600)
