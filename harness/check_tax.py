"""C13 / C14 / C15: taxonomy, similarity and information content on arbitrary
hypernym graphs.  Model: spec/WnTaxonomy.tla (+ MC_Taxonomy bounded instance);
binding: graphs explored by TLC and random larger ones are materialised as
lexicons, the real wn.taxonomy / wn.similarity / wn.ic are run on them and the
recorded results are judged by TLC (spec/Judge_C13.tla, ...)."""
from __future__ import annotations

import random

from harness import graphs
from harness.core import (Verdict, tlc_model, tlc_judge, run_driver, seed, NCPU)


def nontrivial(g) -> bool:
    return len(g['hyp']) >= 2


def observe(cases, want, graph_timeout=20, extra=None):
    per = max(1, min(120, len(cases) // (NCPU * 2) or 1))
    jobs = []
    for k in range(0, len(cases), per):
        j = {'graphs': cases[k:k + per], 'want': want, 'graph_timeout': graph_timeout}
        j.update(extra or {})
        jobs.append(j)
    res = run_driver('drv_tax.py', jobs, timeout=3000)
    obs = {}
    for j, r in zip(jobs, res):
        if r is None or r.get('timeout') or r.get('skipped'):
            for g in j['graphs']:
                obs[g['id']] = {'id': g['id'], 'timeout': True}
        else:
            for o in r['obs']:
                obs[o['id']] = o
    return obs


def records(cases, obs, key):
    recs = []
    for g in cases:
        o = obs[g['id']]
        rec = {'id': g['id'], 'g': {k: g[k] for k in g if k != 'id'}}
        if o.get('timeout'):
            rec['timeout'] = True
        else:
            rec[key] = o[key]
        recs.append(rec)
    return recs


def c13(tier: str) -> int:
    v = Verdict('C13', tier)
    v.assumptions = [
        'strings are atoms for TLC; graphs are materialised as one lexicon each',
        'on cyclic graphs with simulate_root both readings of the fake root are admissible',
        'on cyclic graphs both readings of "depth of a common hypernym" are admissible']
    thorough = tier == 'thorough'
    # 1. the design has the property (bounded instance, exhaustive)
    v.add_model('MC_Taxonomy N=3 (all 512 digraphs)', tlc_model('MC_Taxonomy'))
    if thorough:
        v.add_model('MC_Taxonomy N=4 (all 65536 digraphs)',
                    tlc_model('MC_Taxonomy', 'MC_Taxonomy4.cfg', timeout=6 * 3600))
    # 2. spec -> code -> spec
    cases = graphs.cases(tier, seed(), n4=3000 if not thorough else 0,
                         nrandom=400 if not thorough else 20000, maxn=7 if not thorough else 9)
    if thorough:
        rng = random.Random(seed())
        k = len(cases)
        for g in graphs.tlc_graphs(4):
            k += 1
            cases.append(graphs.finish(g, rng, k))
    obs = observe(cases, ['c13'])
    recs = records(cases, obs, 'c13')
    j = tlc_judge('Judge_C13', recs, cfg='Judge.cfg', shards=NCPU)
    byid = {r['id']: r for r in recs}
    v.add_judgement('Judge_C13', j, byid, nontrivial=sum(1 for g in cases if nontrivial(g)))
    v.cov['rule'] = ('every labelled digraph with self-loops on <=3 synsets (the states of '
                     'MC_Taxonomy, emitted by TLC), part-of-speech / relation-type / '
                     'non-mirrored-hyponym variants, fixed adversarial shapes, '
                     'random 4-node and larger graphs; non-trivial = at least two hypernym edges')
    v.cov['exhaustive'] = False
    for g in cases[600:603]:
        v.sample({'graph': g, 'observed': {k: (obs[g['id']].get('c13') or {}).get(k)
                                           for k in ('bypos',)}})
    return v.finish()
