"""C13 / C14 / C15: taxonomy, similarity and information content on arbitrary
hypernym graphs.  Model: spec/WnTaxonomy.tla (+ MC_Taxonomy bounded instance);
binding: graphs explored by TLC and random larger ones are materialised as
lexicons, the real wn.taxonomy / wn.similarity / wn.ic are run on them and the
recorded results are judged by TLC (spec/Judge_C13.tla, ...)."""
from __future__ import annotations

import random

from harness import graphs
from harness.core import (Verdict, tlc_model, tlc_judge, run_driver, seed, NCPU)


def nontrivial(g) -> bool:
    return len(g['hyp']) >= 2


def observe(cases, want, graph_timeout=20, extra=None, _retry=True):
    per = max(1, min(120, len(cases) // (NCPU * 2) or 1))
    jobs = []
    for k in range(0, len(cases), per):
        j = {'graphs': cases[k:k + per], 'want': want, 'graph_timeout': graph_timeout}
        j.update(extra or {})
        jobs.append(j)
    res = run_driver('drv_tax.py', jobs, timeout=3000)
    obs = {}
    for j, r in zip(jobs, res):
        if r is None or r.get('timeout') or r.get('skipped'):
            for g in j['graphs']:
                obs[g['id']] = {'id': g['id'], 'timeout': True}
        else:
            for o in r['obs']:
                obs[o['id']] = o
    # the batteries are exponential in the number of simple paths of a cyclic graph: a graph
    # that exceeded the per-graph limit next to fifteen busy workers is run again, one graph
    # per job and with thirty times the limit, before it counts as not terminating
    slow = [g for g in cases if obs[g['id']].get('timeout')]
    if len(slow) > 200:     # that many slow graphs are a change in the code, not bad luck
        slow = slow[:64]
    if slow and _retry:
        again = {}
        for k in range(0, len(slow), 400):
            again.update(observe_each(slow[k:k + 400], want, graph_timeout * 30, extra))
        obs.update(again)
    return obs


def observe_each(cases, want, graph_timeout, extra):
    jobs = []
    for g in cases:
        j = {'graphs': [g], 'want': want, 'graph_timeout': graph_timeout}
        j.update(extra or {})
        jobs.append(j)
    res = run_driver('drv_tax.py', jobs, timeout=graph_timeout * 2 + 60)
    obs = {}
    for j, r in zip(jobs, res):
        g = j['graphs'][0]
        if r is None or r.get('timeout') or r.get('skipped'):
            obs[g['id']] = {'id': g['id'], 'timeout': True}
        else:
            obs[g['id']] = r['obs'][0]
    return obs


def records(cases, obs, key):
    recs = []
    for g in cases:
        o = obs[g['id']]
        rec = {'id': g['id'], 'g': {k: g[k] for k in g if k != 'id'}}
        if o.get('timeout'):
            rec['timeout'] = True
        else:
            rec[key] = o[key]
        recs.append(rec)
    return recs


def spread(cases, rng, count):
    """copies of `count' graphs spread over a lexicon and an extension of it (some nodes
    and some edges belong to the extension): a Wordnet over both sees the same graph"""
    pool = [g for g in cases if len(g['hyp']) >= 2]
    k = max(g['id'] for g in cases)
    for g in rng.sample(pool, min(count, len(pool))):
        k += 1
        h = dict(g, id=k)
        h['xhyp'] = [i for i in range(len(g['hyp'])) if rng.random() < 0.5]
        h['xhypo'] = [i for i in range(len(g.get('hypo', []))) if rng.random() < 0.5]
        h['xnodes'] = [x for x in range(1, g['n'] + 1) if rng.random() < 0.2] if rng.random() < 0.5 else []
        if not (h['xhyp'] or h['xhypo'] or h['xnodes']):
            h['xhyp'] = [0]
        cases.append(h)


def c13(tier: str) -> int:
    v = Verdict('C13', tier)
    v.assumptions = [
        'strings are atoms for TLC; graphs are materialised as one lexicon each, or as a lexicon and an extension of it (spread copies)',
        'on cyclic graphs with simulate_root both readings of the fake root are admissible',
        'on cyclic graphs both readings of "depth of a common hypernym" are admissible']
    thorough = tier == 'thorough'
    # 1. the design has the property (bounded instance, exhaustive)
    v.add_model('MC_Taxonomy N=3 (all 512 digraphs)', tlc_model('MC_Taxonomy'))
    if thorough:
        v.add_model('MC_Taxonomy N=4 (all 65536 digraphs)',
                    tlc_model('MC_Taxonomy', 'MC_Taxonomy4.cfg', timeout=6 * 3600))
    # 2. spec -> code -> spec
    cases = graphs.cases(tier, seed(), n4=3000 if not thorough else 0,
                         nrandom=400 if not thorough else 10000, maxn=7 if not thorough else 8)
    if thorough:
        # the code is run on a seeded third of the 65536 four-node digraphs TLC has just
        # model-checked (all of them took over an hour together with the random graphs)
        rng = random.Random(seed())
        k = len(cases)
        for g in rng.sample(graphs.tlc_graphs(4), 22000):
            k += 1
            cases.append(graphs.finish(g, rng, k))
    spread(cases, random.Random(seed() + 113), 4000 if thorough else 500)
    obs = observe(cases, ['c13'])
    recs = records(cases, obs, 'c13')
    j = tlc_judge('Judge_C13', recs, cfg='Judge.cfg', shards=NCPU)
    byid = {r['id']: r for r in recs}
    v.add_judgement('Judge_C13', j, byid, nontrivial=sum(1 for g in cases if nontrivial(g)))
    v.cov['rule'] = ('every labelled digraph with self-loops on <=3 synsets (the states of '
                     'MC_Taxonomy, emitted by TLC), part-of-speech / relation-type / '
                     'non-mirrored-hyponym variants, fixed adversarial shapes, '
                     'random 4-node and larger graphs; non-trivial = at least two hypernym edges')
    v.cov['exhaustive'] = False
    for g in cases[600:603]:
        v.sample({'graph': g, 'observed': {k: (obs[g['id']].get('c13') or {}).get(k)
                                           for k in ('bypos',)}})
    return v.finish()


def add_weights(cases, rng):
    for g in cases:
        n = g['n']
        w = [rng.randint(1, 9) for _ in range(n)]
        e = [rng.randint(0, 4) for _ in range(n)]
        m = max(e) + rng.randint(0, 1)
        g['weights'] = [
            {'w': w, 'total': max(w) + rng.randint(0, 3), 'exp': [], 'texp': 0},
            {'w': [2 ** k for k in e], 'total': 2 ** m, 'exp': e, 'texp': m}]
        g['lch_depths'] = [1, rng.randint(2, 6)]


def c14(tier: str) -> int:
    v = Verdict('C14', tier)
    v.assumptions = [
        'floats returned by wn.similarity are converted by the harness to exact rationals '
        '(logarithms undone with exp, tolerance 1e-9); TLC compares them with the rational '
        'arguments of the model',
        'lin is checked with power-of-two weights only (its value is then rational)',
        'res: the guide defines it over all common subsumers and says lowest common hypernyms '
        'suffice; either reading is admitted for non-monotone weights']
    thorough = tier == 'thorough'
    v.add_model('MC_Taxonomy N=3 (PathBounds, WupBounds, WupSym, SelfMaximalPath)',
                tlc_model('MC_Taxonomy'))
    rng = random.Random(seed() + 14)
    cases = graphs.cases(tier, seed() + 14, n4=800 if not thorough else 20000,
                         nrandom=250 if not thorough else 8000, maxn=7 if not thorough else 8)
    spread(cases, random.Random(seed() + 114), 3000 if thorough else 300)
    add_weights(cases, rng)
    obs = observe(cases, ['c14'])
    recs = records(cases, obs, 'c14')
    j = tlc_judge('Judge_C14', recs, cfg='Judge.cfg', shards=NCPU)
    v.add_judgement('Judge_C14', j, {r['id']: r for r in recs},
                    nontrivial=sum(1 for g in cases if nontrivial(g)))
    v.cov['rule'] = ('graphs as in C13 x all ordered pairs x simulate_root x two lch depths x '
                     'two weight assignments (arbitrary positive, power-of-two); '
                     'non-trivial = at least two hypernym edges')
    for g in cases[700:702]:
        v.sample({'graph': g, 'observed_sim_rows': (obs[g['id']].get('c14') or {}).get('sim', [])[:6]})
    return v.finish()


def add_corpora(cases, rng):
    forms = ['w1', 'w2', 'w3', 'two words', 'W5']
    for g in cases:
        n = g['n']
        words = []
        for f in forms[:rng.randint(1, len(forms))]:
            k = rng.choice([1, 1, 2, 3])
            words.append([f, sorted(rng.sample(range(1, n + 1), min(k, n)))])
        g['words'] = words
        # a word may also have a synset in a part of speech for which no information content is
        # kept (u, c, x ...): it shares the word's count when that is distributed, and gets
        # nothing itself (an extra synset without hypernym edges)
        if rng.random() < 0.3:
            g['n'] = n + 1
            g['pos'] = list(g['pos']) + [rng.choice(['u', 'c', 'x'])]
            rng.choice(words)[1].append(n + 1)
        g['corpora'] = []
        for _ in range(2):
            toks = [rng.choice([w[0] for w in words] + ['unknown', 'w1', ''])
                    for _ in range(rng.randint(0, 5))]
            g['corpora'].append({'tokens': toks, 'distribute': rng.random() < 0.5,
                                 'smoothing': rng.choice([[0, 1], [1, 2], [1, 1], [1, 1]])})
        # one corpus counted with the documented default arguments
        g['corpora'].append({'tokens': [rng.choice([w[0] for w in words]) for _ in range(rng.randint(1, 4))],
                             'distribute': True, 'smoothing': [1, 1], 'defaults': True})
        # a WordNet::Similarity weights file: some synsets listed (some twice, the last
        # wins), some marked ROOT
        rows = []
        for x in rng.sample(range(1, n + 1), rng.randint(0, n)):
            rows.append([x, rng.randint(1, 50), rng.random() < 0.4])
        if rows and rng.random() < 0.2:
            rows.append([rows[0][0], rng.randint(51, 60), False])
        # (weights files know n / v / a / r only; ids of satellite synsets carry '-s')
        g['icfiles'] = [{'rows': rows}] if set(g['pos']) <= {'n', 'v', 'a', 'r'} else []


def c15(tier: str) -> int:
    v = Verdict('C15', tier)
    v.assumptions = [
        'weights are compared as exact rationals (floats converted with tolerance 1e-9)',
        'graphs have one (folded) part of speech each: the property does not say what a '
        'hypernym of another part of speech receives',
        'load() is exercised on generated WordNet::Similarity files by the same judge']
    thorough = tier == 'thorough'
    v.add_model('MC_IC N=3 (Conserved, Monotone, counted once)', tlc_model('MC_IC'))
    rng = random.Random(seed() + 15)
    cases = graphs.cases(tier, seed() + 15, n4=1500 if not thorough else 30000,
                         nrandom=300 if not thorough else 8000, maxn=7 if not thorough else 8,
                         pos_variants=False)
    k = len(cases)
    for g in list(cases[:200]):
        k += 1
        h = dict(g, id=k, pos=[rng.choice(['a', 's']) for _ in range(g['n'])])
        cases.append(h)
    for g in cases:
        if len(set('a' if p == 's' else p for p in g['pos'])) > 1:
            g['pos'] = ['n'] * g['n']
    spread(cases, random.Random(seed() + 115), 5000 if thorough else 500)
    add_corpora(cases, rng)
    obs = observe(cases, ['c15'])
    recs = records(cases, obs, 'c15')
    j = tlc_judge('Judge_C15', recs, cfg='Judge.cfg', shards=NCPU)
    v.add_judgement('Judge_C15', j, {r['id']: r for r in recs},
                    nontrivial=sum(1 for g in cases if nontrivial(g) and any(c['tokens'] for c in g['corpora'])))
    v.cov['rule'] = ('graphs as in C13 (one part of speech each, incl. a/s mixes) x words mapped '
                     'to 1-3 synsets x two corpora (known, unknown, ambiguous, multi-word tokens) x '
                     'distribute x smoothing in {0, 1/2, 1}; non-trivial = >=2 edges and a non-empty corpus')
    for g in cases[530:532]:
        v.sample({'graph': g, 'observed': (obs[g['id']].get('c15') or {}).get('tot')})
    return v.finish()
