"""Entry point:  bin/check <property id> [--tier quick|thorough]"""
from __future__ import annotations

import argparse
import os
import sys
import traceback

from harness.core import MachineryError


def dispatch(pid: str, tier: str) -> int:
    if pid in ('C13', 'C14', 'C15'):
        from harness import check_tax
        return getattr(check_tax, pid.lower())(tier)
    if pid in ('C05', 'C06', 'C07', 'C19'):
        from harness import check_store
        return getattr(check_store, pid.lower())(tier)
    if pid == 'C08':
        from harness import check_select
        return check_select.c08(tier)
    if pid in ('C17', 'C09'):
        from harness import check_words
        return getattr(check_words, pid.lower())(tier)
    if pid == 'C18':
        from harness import check_validate
        return check_validate.c18(tier)
    if pid in ('C04', 'C10', 'C11', 'C12'):
        from harness import check_query
        return getattr(check_query, pid.lower())(tier)
    if pid in ('C01', 'C02', 'C03', 'C20'):
        from harness import check_lmf
        return getattr(check_lmf, pid.lower())(tier)
    if pid == 'C16':
        from harness import check_det
        return check_det.c16(tier)
    if pid in ('X01', 'X02', 'X03', 'X04'):
        from harness import check_extra
        return getattr(check_extra, pid.lower())(tier)
    raise MachineryError(f'no check for {pid}')


def replay(pid: str, path: str) -> int:
    """Judge the observation stored in a violation file again (same TLA+ module)."""
    import json
    from harness.core import tlc_judge
    d = json.load(open(path))
    rp = d.get('replay') or {}
    rec = rp.get('record')
    module = (rp.get('judge') or '').split()[0]
    print(f"property {d.get('property')}: {d.get('summary')}")
    if not rec or not module.startswith('Judge_'):
        print(json.dumps(rp, indent=1, ensure_ascii=False)[:4000])
        print('(no single record to judge again: the file describes the case)')
        return 1
    j = tlc_judge(module, [rec], cfg='Judge.cfg', shards=1)
    for f in j.fails:
        print('TLC: record', f.get('id'), 'fails', json.dumps(f.get('c'), ensure_ascii=False)[:2000])
    for dv in j.devs:
        print('TLC: record', dv.get('id'), 'is explained only by deviation', dv.get('d'))
    if j.fails or j.devs:
        print(f'VIOLATION property={pid} replay={path}')
        return 1
    print('the stored observation is explained by the specification')
    return 0


def main() -> int:
    ap = argparse.ArgumentParser()
    ap.add_argument('pid')
    ap.add_argument('--tier', default=os.environ.get('VERIF_TIER', 'quick'),
                    choices=['quick', 'thorough'])
    ap.add_argument('--replay', help='a violation file written by an earlier run: the recorded '
                    'observation is judged again by TLC and the case is printed')
    a = ap.parse_args()
    try:
        if a.replay:
            return replay(a.pid.upper(), a.replay)
        return dispatch(a.pid.upper(), a.tier)
    except MachineryError as e:
        print(f'MACHINERY-FAILURE property={a.pid}: {e}', file=sys.stderr)
        return 2
    except Exception:
        traceback.print_exc()
        print(f'MACHINERY-FAILURE property={a.pid}', file=sys.stderr)
        return 2


if __name__ == '__main__':
    sys.exit(main())
