"""Driver for the download model (spec/WnDownload.tla): histories of
wn.download() calls against a scripted HTTP transport (httpx.MockTransport put in
place of the network), servers changing behaviour and cache files being deleted
between calls.  After every step the cache directory and the database are
projected onto the specification's state."""
from __future__ import annotations

import hashlib

import httpx

import wn
import wn._download

from harness import lmfgen
from harness.wnenv import fresh_db, base_dir, main_loop, exc_name
from harness.drv_config import project_state, classify

N = '~'
U1, U2, U3 = 'http://a/1', 'https://b/1', 'http://c/2'
URLS = [U1, U2, U3]


def content(tag: str) -> bytes:
    if tag in ('g1', 'g2'):
        lex = lmfgen.mini_lexicon('dl' + tag[1], '1')
        return lmfgen.to_xml({'lmf_version': '1.1', 'lexicons': [lex]}).encode('utf-8')
    return b'this is not a wordnet\n' * 40


CONTENT = {}
SERVER = {}
REQUESTS = []
_RealClient = httpx.Client


def handler(request: httpx.Request) -> httpx.Response:
    url = str(request.url)
    REQUESTS.append(url)
    b = SERVER.get(url, ['unreachable'])
    if b[0] == 'ok':
        return httpx.Response(200, content=CONTENT[b[1]])
    if b[0] == 'status':
        return httpx.Response(404, content=b'not here')
    if b[0] == 'drop':
        def body():
            yield CONTENT['g1'][:100]
            raise httpx.ReadError('connection dropped')
        return httpx.Response(200, content=body())
    raise httpx.ConnectError('unreachable')


def client_factory(*a, **kw):
    kw['transport'] = httpx.MockTransport(handler)
    return _RealClient(*a, **kw)


def own_cache_name(url: str) -> str:
    return hashlib.blake2b(url.encode('utf-8'), digest_size=20).hexdigest()


def observe():
    d = wn.config.downloads_directory
    names = {own_cache_name(u): u for u in URLS}
    cache = {u: N for u in URLS}
    stray = []
    for p in sorted(d.iterdir()):
        u = names.get(p.name)
        data = p.read_bytes()
        tag = next((t for t, c in CONTENT.items() if c == data), None)
        if tag is None:
            tag = 'empty' if not data else 'partial' if CONTENT['g1'].startswith(data) else 'other'
        if u is None:
            stray.append([p.name, tag])
        else:
            cache[u] = tag
    db = sorted('g' + l.id[2:] for l in wn.lexicons() if l.id.startswith('dl'))
    return cache, db, stray


def setup_index():
    cfg = wn.config
    for pid, err in (('p', None), ('q', 'gone'), ('r', None)):
        if pid not in cfg.index:
            cfg.add_project(pid, error=err)
    cfg.add_project_version('p', '1', url=f'{U2} {U1}')
    cfg.add_project_version('p', '2', url=U3)
    cfg.add_project_version('p', '3', error='E')
    cfg.add_project_version('q', '1', url=U1)
    cfg.add_project_version('r', '1')


def handle(job):
    fresh_db('dl')
    if not CONTENT:
        CONTENT.update({t: content(t) for t in ('g1', 'g2', 'bad')})
    setup_index()
    httpx.Client = client_factory
    SERVER.clear()
    idx = [p for p in project_state(wn.config) if p['id'] in ('p', 'q', 'r')]
    recs = []
    try:
        for op in job['ops']:
            cache0, db0, _ = observe()
            rec = {'op': op, 'idx': idx, 'server': {u: SERVER.get(u, ['unreachable']) for u in URLS},
                   'pre': {'cache': cache0, 'db': db0}}
            del REQUESTS[:]
            res = ['ok', N]
            if op[0] == 'init':
                SERVER.update({u: list(b) for u, b in op[1].items()})
                rec['server'] = {u: SERVER.get(u, ['unreachable']) for u in URLS}
            elif op[0] == 'server':
                SERVER[op[1]] = list(op[2])
            elif op[0] == 'evict':
                (wn.config.downloads_directory / own_cache_name(op[1])).unlink(missing_ok=True)
            elif op[0] == 'call':
                try:
                    path = wn.download(op[1], add=op[2], progress_handler=None)
                    hit = [u for u in URLS if own_cache_name(u) == path.name
                           and path.parent == wn.config.downloads_directory]
                    res = ['ok', hit[0] if hit else '?' + str(path)]
                except Exception as e:
                    if isinstance(e, wn.ProjectError):
                        res = ['exc', classify(e)]
                    elif isinstance(e, wn.Error):
                        msg = str(e)
                        kind = next((k for k in ('no urls to download', 'download failed',
                                                 'could not add') if msg.startswith(k)), msg[:60])
                        res = ['exc', 'Error:' + kind]
                    else:
                        res = ['exc', exc_name(e).split('.')[-1]]
            else:
                raise AssertionError(op)
            cache1, db1, stray = observe()
            rec.update({'res': res, 'reqs': list(REQUESTS), 'post': {'cache': cache1, 'db': db1},
                        'stray': stray})
            recs.append(rec)
    finally:
        httpx.Client = _RealClient
    return {'recs': recs}


if __name__ == '__main__':
    main_loop(handle, per_job_timeout=300)
