"""Single-fault mutations of a valid WN-LMF document (text produced by
harness/lmfgen.py: one start tag per line, attributes written as name="value").
Each mutation is a record [kind, elem, attr] that spec/WnLmf.tla classifies."""
from __future__ import annotations

import random
import re

TAG = re.compile(r'^(\s*)<(\w+)((?: [\w:]+="[^"]*")*)(\s*/?)>(.*)$')
ATTR = re.compile(r' ([\w:]+)="([^"]*)"')

REQUIRED = {
    'Lexicon': ['id', 'version', 'label', 'language', 'email', 'license'],
    'LexiconExtension': ['id', 'version', 'label', 'language', 'email', 'license'],
    'Requires': ['id', 'version'], 'Extends': ['id', 'version'],
    'LexicalEntry': ['id'], 'ExternalLexicalEntry': ['id'], 'ExternalSense': ['id'],
    'ExternalSynset': ['id'], 'ExternalForm': ['id'],
    'Lemma': ['writtenForm', 'partOfSpeech'], 'Form': ['writtenForm'], 'Tag': ['category'],
    'Sense': ['id', 'synset'], 'SenseRelation': ['target', 'relType'],
    'SynsetRelation': ['target', 'relType'], 'Synset': ['id', 'ili'],
    'SyntacticBehaviour': ['subcategorizationFrame'],
}
# optional attributes whose removal keeps the document loadable and addable
OPTIONAL = {
    'Lexicon': ['url', 'citation', 'logo', 'dc:description', 'dc:publisher', 'status', 'note'],
    'LexicalEntry': ['dc:source', 'note', 'status'],
    'Lemma': ['script'], 'Form': ['script'],
    'Sense': ['lexicalized', 'adjposition', 'note', 'status', 'confidenceScore'],
    'Synset': ['partOfSpeech', 'lexicalized', 'lexfile', 'note'],
    'Definition': ['language'], 'Example': ['language'], 'Pronunciation': ['variety', 'notation', 'audio'],
    'Requires': ['url'], 'Extends': ['url'],
}
HARMLESS_DUP = ['Example', 'Definition', 'Tag', 'Count']
SINGLE = ['Lemma', 'ExternalLemma', 'ILIDefinition', 'Extends']


def mutations(text: str, version: str, rng: random.Random, per_kind: int = 3):
    lines = text.split('\n')
    tags = []   # (line index, indent, name, attrs string, selfclosing, rest)
    for k, ln in enumerate(lines):
        m = TAG.match(ln)
        if m:
            tags.append((k, m.group(1), m.group(2), m.group(3), m.group(4).strip() == '/', m.group(5)))
    out = []

    def emit(kind, elem, attr, newlines):
        out.append(({'kind': kind, 'elem': elem, 'attr': attr}, '\n'.join(newlines)))

    def pick(cands, n):
        cands = list(cands)
        rng.shuffle(cands)
        return cands[:n]
    # drop a required / an optional attribute
    req, opt = [], []
    for t in tags:
        k, ind, name, attrs, sc, rest = t
        have = [a for a, _ in ATTR.findall(attrs)]
        for a in REQUIRED.get(name, []):
            if a in have:
                req.append((t, a))
        for a in OPTIONAL.get(name, []):
            if a in have:
                opt.append((t, a))
    # one occurrence of every (element, required attribute) pair the document has, so that
    # rare elements (ExternalForm, Extends, Requires ...) are hit as often as frequent ones
    # (and in each position: the pair is taken once per kind of preceding element)
    prev = {t[0]: (tags[i - 1][2] if i else '~') for i, t in enumerate(tags)}
    groups = {}
    for (t, a) in req:
        groups.setdefault((t[2], a, prev[t[0]]), []).append((t, a))
    strat = [rng.choice(g) for _, g in sorted(groups.items())]
    for (t, a) in strat + pick(req, per_kind) + pick(opt, per_kind * 2):
        k, ind, name, attrs, sc, rest = t
        new = list(lines)
        new[k] = re.sub(r' %s="[^"]*"' % re.escape(a), '', lines[k], count=1)
        emit('drop_attr', name, a, new)
    # rename an element to a name no version knows (single-line elements only)
    single_line = [t for t in tags if t[4] or ('</%s>' % t[2]) in t[5]]
    for t in pick([t for t in single_line if t[2] != 'LexicalResource'], per_kind):
        k, ind, name, attrs, sc, rest = t
        new = list(lines)
        new[k] = lines[k].replace('<' + name, '<' + name + 'X', 1).replace('</' + name + '>', '</' + name + 'X>')
        emit('rename', name, '~', new)
    # an element of a later version: allowed from 1.1 on, foreign to 1.0
    lex = [t for t in tags if t[2] in ('Lexicon', 'LexiconExtension')]
    if lex:
        k = lex[0][0]
        new = list(lines)
        new.insert(k + 1 + (1 if lines[k + 1].lstrip().startswith('<Extends') else 0),
                   '    <Requires id="elsewhere" version="9"/>')
        emit('foreign_elem', 'Requires', '~', new)
    lemmas = [t for t in tags if t[2] == 'Lemma' and t[4]]
    for t in pick(lemmas, 1):
        k = t[0]
        new = list(lines)
        new[k] = lines[k].rstrip()[:-2] + '><Pronunciation>x</Pronunciation></Lemma>'
        emit('foreign_elem', 'Pronunciation', '~', new)
    # duplicate a child: single-valued ones are rejected, harmless list members accepted
    for name in SINGLE + HARMLESS_DUP:
        cands = [t for t in single_line if t[2] == name]
        for t in pick(cands, 1):
            k = t[0]
            new = list(lines)
            new.insert(k + 1, lines[k])
            emit('dup_child', name, '~', new)
    # not well-formed
    closers = [k for k, ln in enumerate(lines) if re.match(r'^\s*</\w+>\s*$', ln)]
    for k in pick(closers, per_kind):
        new = list(lines)
        del new[k]
        emit('unbalance', lines[k].strip()[2:-1], 'end-tag-removed', new)
    for k in pick(closers, 1):
        new = list(lines)
        new[k] = lines[k].replace('</', '</Wrong')
        emit('unbalance', lines[k].strip()[2:-1], 'end-tag-mismatch', new)
    if lex:     # the file ends inside the first lexicon start tag
        k = lex[0][0]
        cut = '\n'.join(lines[:k]) + '\n' + lines[k][:len(lines[k]) // 2]
        out.append(({'kind': 'unbalance', 'elem': lex[0][2], 'attr': 'start-tag'}, cut))
    emit('unbalance', 'LexicalResource', 'truncated', lines[:max(3, len(lines) * 2 // 3)])
    # comments change nothing: a one-line comment, one over several lines, and commented-out
    # Lexicon / Extends start tags (what an earlier release leaves behind)
    if lex:
        k = lex[0][0]
        ind = '  '
        for variant, text in (
                ('line', [ind + '<!-- a comment -->']),
                ('block', [ind + '<!-- a comment', ind + '     over three lines', ind + '-->']),
                ('old-lexicon', [ind + '<!--', ind + '<Lexicon id="ghost" version="0" label="Ghost" language="xx"',
                                 ind + '         email="g@x" license="none">', ind + '</Lexicon>', ind + '-->']),
                ('old-extends', [ind + '<!-- formerly:', ind + '  <Extends id="ghostbase" version="9"/>', ind + '-->'])):
            new = list(lines)
            # before the first lexicon, or just inside it (after its start tag)
            at = k if variant in ('line', 'old-lexicon') else k + 1
            new[at:at] = text
            emit('comment', 'Lexicon', variant, new)
    # the same characters written as character references (decimal, hexadecimal with lower-case
    # and with upper-case digits) in the identifying attributes of lexicons and <Extends>
    def refs(style):
        new = list(lines)
        done = 0
        for t in tags:
            k, ind, name, attrs, sc, rest = t
            if name not in ('Lexicon', 'LexiconExtension', 'Extends', 'Requires'):
                continue
            def enc(m):
                nonlocal done
                val = m.group(2)
                if '&' in val:          # (already holds references: left alone)
                    return m.group(0)
                for j, ch in enumerate(val):
                    h = format(ord(ch), 'x')
                    if ch not in '&<>"\'' and any(d in 'abcdef' for d in h):
                        done += 1
                        r_ = {'dec': f'&#{ord(ch)};', 'hex': f'&#x{h};', 'HEX': f'&#x{h.upper()};'}[style]
                        return f' {m.group(1)}="{val[:j]}{r_}{val[j + 1:]}"'
                return m.group(0)
            new[k] = re.sub(r' (id|version|label)="([^"]*)"', enc, new[k])
        return new if done else None
    for style in ('dec', 'hex', 'HEX'):
        new = refs(style)
        if new:
            emit('charref', 'Lexicon', style, new)
    # header
    emit('no_xmldecl', '~', '~', lines[1:])
    emit('no_doctype', '~', '~', [lines[0]] + lines[2:])
    emit('bad_version', '~', '~', [lines[0], lines[1].replace('WN-LMF-' + version, 'WN-LMF-2.0')] + lines[2:])
    emit('blank_first_line', '~', '~', [''] + lines)
    emit('doctype_quotes', '~', '~', [lines[0].replace('"', "'"), lines[1].replace('"', "'")] + lines[2:])
    # bytes before the declaration (a byte order mark, a blank): refused by the header test
    # although an XML parser would skip a byte order mark
    emit('bom', '~', '~', ['\ufeff' + lines[0]] + lines[1:])
    emit('leading_space', '~', '~', [' ' + lines[0]] + lines[1:])
    # blanks / a carriage return at the end of the two header lines are not significant
    emit('header_ws', '~', rng.choice(['cr', 'sp']), [lines[0] + '\r', lines[1] + '\r'] + lines[2:]
         if rng.random() < 0.5 else [lines[0] + '  ', lines[1] + ' \t'] + lines[2:])
    return out
