"""Driver for spec/WnSession.tla: one process, several data directories (one of
them holding a wn.db written by another schema), calls interleaved with changes of
wn.config.data_directory -- without closing anything in between."""
from __future__ import annotations

import hashlib
import shutil
import sqlite3
import tempfile
from pathlib import Path

import wn
import wn._db

from harness import lmfgen
from harness.wnenv import base_dir, main_loop, close_db

DIRS = ['A', 'B', 'F']


def sha(p: Path) -> str:
    return hashlib.sha256(p.read_bytes()).hexdigest()[:16]


def make_foreign(d: Path):
    d.mkdir(parents=True, exist_ok=True)
    c = sqlite3.connect(str(d / 'wn.db'))
    c.executescript("CREATE TABLE lexicons (id TEXT, version TEXT, extra TEXT);"
                    "INSERT INTO lexicons VALUES ('old', '0', 'x');")
    c.commit()
    c.close()


def lexicon_file(root: Path, spec: str) -> Path:
    lid, ver = spec.split(':')
    p = root / f'{lid}-{ver}.xml'
    if not p.exists():
        lex = lmfgen.mini_lexicon(lid, ver)
        lex['entries'] = [{'id': f'{lid}-w1', 'meta': None,
                           'lemma': {'writtenForm': 'thing', 'partOfSpeech': 'n'},
                           'senses': [{'id': f'{lid}-w1-1', 'synset': f'{lid}-s1', 'meta': None}]}]
        lex['synsets'] = [{'id': f'{lid}-s1', 'ili': '', 'partOfSpeech': 'n', 'meta': None}]
        p.write_text(lmfgen.to_xml({'lmf_version': '1.0', 'lexicons': [lex]}), encoding='utf-8')
    return p


def observe(root: Path, fsha: str):
    disk = {}
    for d in DIRS:
        p = root / d / 'wn.db'
        if not p.exists():
            disk[d] = {'kind': 'absent', 'lex': []}
        elif d == 'F':
            disk[d] = {'kind': 'foreign' if sha(p) == fsha else 'foreign-modified', 'lex': []}
        else:
            raw = sqlite3.connect(str(p))
            try:
                specs = sorted(r[0] for r in raw.execute("SELECT id || ':' || version FROM lexicons"))
            except sqlite3.OperationalError:
                specs = ['?']
            finally:
                raw.close()
            disk[d] = {'kind': 'db', 'lex': specs}
    opened = sorted(Path(k).parent.name for k in wn._db.pool)
    return disk, opened


def handle(job):
    close_db()
    root = Path(tempfile.mkdtemp(prefix='ses', dir=base_dir()))
    for d in DIRS:
        (root / d).mkdir()
    make_foreign(root / 'F')
    fsha = sha(root / 'F' / 'wn.db')
    wn.config.data_directory = root / 'A'
    cur = 'A'
    recs = []
    for op in job['ops']:
        disk0, open0 = observe(root, fsha)
        rec = {'op': op, 'cur': cur, 'pre': {'disk': disk0, 'open': open0}}
        try:
            if op[0] == 'setdir':
                wn.config.data_directory = root / op[1]
                cur = op[1]
                res = ['ok', []]
            elif op[0] == 'list':
                res = ['ok', sorted(l.specifier() for l in wn.lexicons())]
            elif op[0] == 'query':
                # every synset carries the lexicon it was found in
                res = ['ok', sorted({y.lexicon().specifier() for y in wn.synsets()})]
            elif op[0] == 'add':
                wn.add(lexicon_file(root, op[1]), progress_handler=None)
                res = ['ok', []]
            elif op[0] == 'remove':
                wn.remove(op[1], progress_handler=None)
                res = ['ok', []]
            else:
                raise AssertionError(op)
        except AssertionError:
            raise
        except wn.DatabaseError:
            res = ['exc', 'DatabaseError']
        except wn.Error:
            res = ['exc', 'Error']
        except Exception as e:
            res = ['exc', type(e).__name__]
        disk1, open1 = observe(root, fsha)
        rec.update({'res': res, 'post': {'disk': disk1, 'open': open1}, 'cur_after': cur})
        recs.append(rec)
    close_db()
    shutil.rmtree(root, ignore_errors=True)
    return {'recs': recs}


if __name__ == '__main__':
    main_loop(handle, per_job_timeout=300)
