"""Driver for C16: one interpreter process per (hash seed); for every world a
fixed battery of read-only public calls is executed twice, interleaved, and each
result is rendered canonically (lists and mappings IN ORDER, floats by repr, sets
sorted, entities by (lexicon, id), files by SHA-256) and digested."""
from __future__ import annotations

import contextlib
import hashlib
import io
import json
import os

import wn
import wn.taxonomy
import wn.similarity
import wn.ic
from wn import lmf
from wn.morphy import Morphy
from wn.validate import validate

from harness import lmfgen
from harness.wnenv import fresh_db, base_dir, main_loop, exc_name, JobTimeout, limit


def canon(x):
    if isinstance(x, (wn.Word, wn.Sense, wn.Synset)):
        return ['@', x.lexicon().specifier() if x.id not in ('*INFERRED*', '*ROOT*') else '*', x.id,
                getattr(x, '_ili', None) if x.id == '*INFERRED*' else None]
    if isinstance(x, wn.Lexicon):
        return ['@lex', x.specifier()]
    if isinstance(x, wn.Relation):
        return ['@rel', x.name, x.source_id, x.target_id, x.lexicon().specifier(), x.subtype,
                canon(x.metadata())]
    if isinstance(x, float):
        return ['f', repr(x)]
    if isinstance(x, dict):
        return ['{', [[canon(k), canon(v)] for k, v in x.items()]]
    if isinstance(x, (set, frozenset)):
        return ['s', sorted((canon(v) for v in x), key=lambda v: json.dumps(v, sort_keys=True, default=str))]
    if isinstance(x, (list, tuple)):
        return [canon(v) for v in x]
    if isinstance(x, (str, int, bool)) or x is None:
        return x
    return ['?', type(x).__name__, str(x)]


def dig(v) -> str:
    return hashlib.sha256(json.dumps(canon(v), ensure_ascii=False, default=str).encode()).hexdigest()[:12]


def file_sha(p) -> str:
    return hashlib.sha256(open(p, 'rb').read()).hexdigest()[:12]


def other_views(case, rec):
    """the same entities seen by differently configured Wordnets (other expand lexicons,
    default mode): asked before the main battery in one process / pass and after it in the
    other, so that anything remembered per entity across Wordnets shows as a difference"""
    scope = case['scope']
    corpus = case.get('corpus', [])
    alt = '*' if case.get('expand', '') == '' else ''
    for name, mk in (('alt', lambda: wn.Wordnet(scope, expand=alt)), ('dflt', lambda: wn.Wordnet())):
        try:
            wx = mk()
        except wn.Error:
            continue
        rec(f'{name}.ic', lambda wx=wx: wn.ic.compute(corpus, wx, distribute_weight=True, smoothing=1.0))
        for pos in ('n', 'v', 'a'):
            rec(f'{name}.taxonomy_depth|{pos}', lambda wx=wx, pos=pos: wn.taxonomy.taxonomy_depth(wx, pos))
        for y in wx.synsets():
            k = f'{y.lexicon().specifier()}/{y.id}'
            rec(f'{name}.nav|{k}', lambda y=y: [y.hypernyms(), y.hyponyms(), y.relations(), y.hypernym_paths(),
                                                y.max_depth(), y.min_depth(), y.words(), y.senses()])
        for q in case.get('queries', [])[:2]:
            rec(f'{name}.search|{q}', lambda wx=wx, q=q: [wx.words(q), wx.senses(q), wx.synsets(q)])


def battery(case, rec):
    """calls rec(key, thunk) for every call of the battery"""
    flip = (int(os.environ.get('PYTHONHASHSEED') or 0) + case.get('_pass', 0)) % 2
    if flip:
        other_views(case, rec)
    main_battery(case, rec)
    if not flip:
        other_views(case, rec)


def main_battery(case, rec):
    d = base_dir()
    scope = case['scope']
    w = wn.Wordnet(scope, expand=case.get('expand', ''))
    wd = wn.Wordnet()
    rec('lexicons', lambda: wn.lexicons())
    rec('w.lexicons', lambda: [w.lexicons(), w.expanded_lexicons()])
    rec('w.fresh', lambda: (lambda x: [x.lexicons(), x.expanded_lexicons(), x.describe()])(
        wn.Wordnet(scope, expand=case.get('expand', ''))))
    for name, wx in (('w', w), ('default', wd)):
        rec(f'{name}.words', lambda wx=wx: wx.words())
        rec(f'{name}.senses', lambda wx=wx: wx.senses())
        rec(f'{name}.synsets', lambda wx=wx: wx.synsets())
    # the unrestricted wordnet (every lexicon, relations borrowed between all of them); the
    # second pass visits the synsets in the opposite order: what was asked before must not matter
    dsyn = wd.synsets()
    if case.get('_pass'):
        dsyn = list(reversed(dsyn))
    for y in dsyn:
        k = f'{y.lexicon().specifier()}/{y.id}'
        rec(f'd.relations|{k}', y.relations)
        rec(f'd.hypernyms|{k}', y.hypernyms)
        rec(f'd.paths|{k}', y.hypernym_paths)
    syn = w.synsets()
    for y in syn:
        k = f'{y.lexicon().specifier()}/{y.id}'
        rec(f'relations|{k}', y.relations)
        rec(f'relation_map|{k}', y.relation_map)
        rec(f'get_related|{k}', y.get_related)
        rec(f'hypernyms|{k}', y.hypernyms)
        rec(f'closure|{k}', lambda y=y: list(y.closure('hypernym', 'hyponym', 'also')))
        rec(f'hypernym_paths|{k}', y.hypernym_paths)
        rec(f'hypernym_paths_root|{k}', lambda y=y: y.hypernym_paths(simulate_root=True))
        rec(f'depths|{k}', lambda y=y: [y.min_depth(), y.max_depth()])
        rec(f'senses|{k}', y.senses)
        rec(f'words|{k}', y.words)
        rec(f'lemmas|{k}', y.lemmas)
        rec(f'attrs|{k}', lambda y=y: [y.definition(), y.examples(), y.lexfile(), y.metadata(),
                                        y.ili.id if y.ili else None])
    for a in syn:
        for b in syn:
            k = f'{a.lexicon().specifier()}/{a.id}|{b.lexicon().specifier()}/{b.id}'
            for sim in (False, True):
                rec(f'lch_set|{k}|{sim}', lambda a=a, b=b, sim=sim: a.lowest_common_hypernyms(b, simulate_root=sim))
                rec(f'common|{k}|{sim}', lambda a=a, b=b, sim=sim: a.common_hypernyms(b, simulate_root=sim))
                rec(f'shortest_path|{k}|{sim}', lambda a=a, b=b, sim=sim: a.shortest_path(b, simulate_root=sim))
                rec(f'path|{k}|{sim}', lambda a=a, b=b, sim=sim: wn.similarity.path(a, b, simulate_root=sim))
                rec(f'wup|{k}|{sim}', lambda a=a, b=b, sim=sim: wn.similarity.wup(a, b, simulate_root=sim))
                rec(f'lch|{k}|{sim}', lambda a=a, b=b, sim=sim: wn.similarity.lch(a, b, 5, simulate_root=sim))
    corpus = case.get('corpus', [])
    ic = None
    try:
        ic = wn.ic.compute(corpus, w, distribute_weight=True, smoothing=1.0)
    except Exception:
        pass
    rec('ic.compute', lambda: wn.ic.compute(corpus, w, distribute_weight=True, smoothing=1.0))
    rec('ic.compute.nodist', lambda: wn.ic.compute(corpus, w, distribute_weight=False, smoothing=0.5))
    if ic is not None:
        for a in syn:
            for b in syn:
                k = f'{a.lexicon().specifier()}/{a.id}|{b.lexicon().specifier()}/{b.id}'
                rec(f'res|{k}', lambda a=a, b=b: wn.similarity.res(a, b, ic))
                rec(f'jcn|{k}', lambda a=a, b=b: wn.similarity.jcn(a, b, ic))
                rec(f'lin|{k}', lambda a=a, b=b: wn.similarity.lin(a, b, ic))
    for pos in ('n', 'v', 'a'):
        rec(f'roots|{pos}', lambda pos=pos: wn.taxonomy.roots(w, pos=pos))
        rec(f'leaves|{pos}', lambda pos=pos: wn.taxonomy.leaves(w, pos=pos))
        rec(f'taxonomy_depth|{pos}', lambda pos=pos: wn.taxonomy.taxonomy_depth(w, pos))
    for x in w.words():
        k = f'{x.lexicon().specifier()}/{x.id}'
        rec(f'word|{k}', lambda x=x: [x.lemma(), x.forms(), x.senses(), x.synsets(), x.derived_words(),
                                      x.metadata(), [[t.tag, t.category] for f in x.forms() for t in f.tags()]])
        rec(f'translate|{k}', lambda x=x: x.translate())
    for s in w.senses():
        k = f'{s.lexicon().specifier()}/{s.id}'
        rec(f'sense|{k}', lambda s=s: [s.word(), s.synset(), s.relations(), s.relation_map(), s.get_related(),
                                        s.get_related_synsets(), s.examples(), s.frames(), s.counts(),
                                        s.metadata(), s.adjposition(), s.lexicalized()])
    for q in case.get('queries', []):
        for lem in (None, Morphy(), Morphy(w)):
            wq = wn.Wordnet(scope, lemmatizer=lem)
            rec(f'search|{q}|{type(lem).__name__}|{getattr(lem, "_initialized", None)}',
                lambda wq=wq, q=q: [wq.words(q), wq.senses(q), wq.synsets(q)])
        rec(f'morphy|{q}', lambda q=q: [Morphy()(q), Morphy(w)(q)])
    # validate / dump / export of every document of the world
    for k, f in enumerate(case['_files']):
        res = lmf.load(f, progress_handler=None)
        for li, L in enumerate(res['lexicons']):
            if not L.get('extends'):
                def val(L=L):
                    with contextlib.redirect_stdout(io.StringIO()):
                        return validate(L, progress_handler=None)
                rec(f'validate|{k}.{li}', val)

        def dump(res=res, k=k):
            p = d / f'det-dump-{k}-{os.getpid()}.xml'
            lmf.dump(res, p)
            return file_sha(p)
        rec(f'dump|{k}', dump)
    for lx in wn.lexicons():
        if lx.extends() is None:
            for v in ('1.0', '1.1', '1.3'):
                def exp(lx=lx, v=v):
                    p = d / f'det-export-{os.getpid()}.xml'
                    wn.export([lx], p, version=v)
                    return file_sha(p)
                rec(f'export|{lx.specifier()}|{v}', exp)
    rec('describe', lambda: w.describe())
    for lx in wn.lexicons():
        k = lx.specifier()
        rec(f'lexicon|{k}', lambda lx=lx: [lx.describe(), lx.requires(), lx.extends(), lx.extensions(),
                                           lx.metadata(), lx.modified()])
    rec('ilis', lambda: [[i.id, i.status, i.definition(), i.metadata()] for i in wn.ilis()])
    rec('ilis.presupposed', lambda: [[i.id, i.definition()] for i in w.ilis(status='presupposed')])
    rec('ilis.proposed', lambda: [[i.id, i.definition()] for i in wn.ilis(status='proposed')])
    for y in syn:
        k = f'{y.lexicon().specifier()}/{y.id}'
        rec(f'relation_paths|{k}', lambda y=y: list(y.relation_paths('hypernym', 'also', 'similar')))
        rec(f'translate|{k}', lambda y=y: y.translate())
        rec(f'lookup|{k}', lambda y=y: [w.synset(y.id), wn.synsets(lexicon=scope, pos=y.pos)])
    for s_ in w.senses():
        k = f'{s_.lexicon().specifier()}/{s_.id}'
        rec(f'sense2|{k}', lambda s_=s_: [list(s_.closure('antonym', 'also', 'derivation')), s_.translate(),
                                          w.sense(s_.id)])
    for k, f in enumerate(case['_files']):
        rec(f'scan|{k}', lambda f=f: lmf.scan_lexicons(f))
    rec('projects', lambda: [[p['id'], p['version'], p['resource_urls']] for p in wn.projects()][:40])


def handle(job):
    out = []
    for case in job['cases']:
        events = []
        try:
            with limit(case.get('timeout', 120)):
                fresh_db('det')
                files = {}
                # the last document that holds nothing but one extension is installed last. In
                # processes with an even hash seed it arrives through add_lexical_resource()
                # after the database has already been read; in the others through add() before
                # any read: the content is the same, so is every result of the battery
                docs_ = case['docs']
                exts = [k for k, res in enumerate(docs_)
                        if len(res['lexicons']) == 1 and res['lexicons'][0].get('extends')]
                late = exts[-1] if exts and len(docs_) > 1 else None
                order = [k for k in range(len(docs_)) if k != late] + ([late] if late is not None else [])
                for k in order:
                    p = base_dir() / f'det{k}.xml'
                    p.write_text(lmfgen.to_xml(docs_[k]), encoding='utf-8')
                    files[k] = p
                    if k == late and int(os.environ.get('PYTHONHASHSEED') or 0) % 2 == 0:
                        for y in wn.synsets():
                            y.senses(), y.hypernyms(), y.words(), y.relations()
                        for x in wn.words():
                            x.senses(), x.forms(), x.synsets()
                        for lx in wn.lexicons():
                            lx.extensions(), lx.extends(), lx.requires()
                        wn.ilis()
                        wn.add_lexical_resource(lmf.load(p, progress_handler=None), progress_handler=None)
                    else:
                        wn.add(p, progress_handler=None)
                case['_files'] = [files[k] for k in range(len(docs_))]

                def rec(key, thunk):
                    try:
                        v = ['ok', dig(thunk())]
                    except JobTimeout:
                        raise
                    except wn.Error:
                        v = ['err', '']
                    except Exception as e:
                        v = ['exc', exc_name(e)]
                    events.append([key, v[0] + ':' + v[1]])
                # twice within the process, the second time after all other read-only calls
                case['_pass'] = 0
                battery(case, rec)
                case['_pass'] = 1
                battery(case, rec)
        except JobTimeout:
            out.append({'id': case['id'], 'timeout': True})
            continue
        out.append({'id': case['id'], 'events': events})
    return {'obs': out}


if __name__ == '__main__':
    main_loop(handle, per_job_timeout=3600)
