"""Driver for C08: databases given as sequences of tiny lexicons (id, version,
language) in order of addition; every specifier argument x language is put to
wn.lexicons(), wn.Wordnet() and, on a copy, wn.remove()."""
from __future__ import annotations

import shutil

import wn

from harness import lmfgen
from harness.wnenv import fresh_db, base_dir, main_loop, exc_name, JobTimeout, close_db, use_db


def tiny(l):
    lex = lmfgen.mini_lexicon(l['id'], l['version'], l['lang'])
    sid = f"{l['id']}-{l['version']}-s1"
    lex['synsets'] = [{'id': sid, 'ili': '', 'partOfSpeech': 'n', 'meta': None}]
    lex['entries'] = [{'id': sid + '-w', 'meta': None,
                       'lemma': {'writtenForm': 'w', 'partOfSpeech': 'n'},
                       'senses': [{'id': sid + '-w-1', 'synset': sid, 'meta': None}]}]
    # dependencies on lexicons that are never installed - another version of an id that may
    # be, and an unknown id: selection does not depend on them (the constructor only warns)
    if l['id'] == 'ab':
        lex['requires'] = [{'id': 'a', 'version': '9'}]
    elif l['id'] == 'b-c':
        lex['requires'] = [{'id': 'zz', 'version': '1'}]
    return lex


def specs(lexs):
    return [f'{lx.id}:{lx.version}' for lx in lexs]


def handle(job):
    out = []
    for case in job['cases']:
        d = fresh_db('sel')
        for k, l in enumerate(case['db']):
            p = base_dir() / f'sel{k}.xml'
            p.write_text(lmfgen.to_xml({'lmf_version': '1.1', 'lexicons': [tiny(l)]}),
                         encoding='utf-8')
            wn.add(p, progress_handler=None)
        qs = []
        for arg, lang in case['queries']:
            la = None if lang == '~' else lang
            try:
                lx = ['ok', specs(wn.lexicons(lexicon=arg, lang=la))]
            except JobTimeout:
                raise
            except Exception as e:
                lx = ['exc:' + exc_name(e), []]
            try:
                w = wn.Wordnet(lexicon=arg, lang=la)
                wl = ['ok', specs(w.lexicons())]
            except JobTimeout:
                raise
            except wn.Error:
                wl = ['err', []]
            except Exception as e:
                wl = ['exc:' + exc_name(e), []]
            qs.append([arg, lang] + lx + wl)
        # the same selection as used by remove (on a copy of the database)
        rm = []
        close_db()
        for arg in case.get('removes', []):
            d2 = base_dir() / 'selcopy'
            if d2.exists():
                shutil.rmtree(d2)
            shutil.copytree(d, d2)
            use_db(d2)
            try:
                wn.remove(arg, progress_handler=None)
                st = 'ok'
            except JobTimeout:
                raise
            except wn.Error:
                st = 'err'
            except Exception as e:
                st = 'exc:' + exc_name(e)
            rm.append([arg, st, specs(wn.lexicons())])
            close_db()
        out.append({'id': case['id'], 'db': case['db'], 'q': qs, 'rm': rm})
    return {'obs': out}


if __name__ == '__main__':
    main_loop(handle, per_job_timeout=1800)
