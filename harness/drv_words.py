"""Driver for C17 (Morphy) and C09 (word-form search): small lexicons given as
word lists [pos, lemma, [other forms]] are added, then lemmatizer calls /
searches are recorded."""
from __future__ import annotations

import wn
from wn.morphy import Morphy

from harness import lmfgen
from harness.wnenv import fresh_db, base_dir, main_loop, exc_name, JobTimeout, limit


def word_lexicon(lid, words, version='1', extends=None):
    """words: [pos, lemma, [forms], (optional) [synset keys]]"""
    lex = lmfgen.mini_lexicon(lid, version)
    if extends:
        lex['extends'] = extends
    syn = {}
    for k, w in enumerate(words):
        pos, lemma, forms = w[0], w[1], w[2]
        sks = w[3] if len(w) > 3 else [f'{k}']
        eid = f'{lid}-w{k}'
        senses = []
        for j, sk in enumerate(sks):
            sid = f'{lid}-s{sk}'
            syn.setdefault(sid, pos)
            senses.append({'id': f'{eid}-{j}', 'synset': sid, 'meta': None})
        lex['entries'].append({'id': eid, 'meta': None,
                               'lemma': {'writtenForm': lemma, 'partOfSpeech': pos},
                               'forms': [{'writtenForm': f} for f in forms],
                               'senses': senses})
    lex['synsets'] = [{'id': sid, 'ili': '', 'partOfSpeech': pos, 'meta': None}
                      for sid, pos in syn.items()]
    return lex


def res_map(r):
    """lemmatizer result {pos|None: set} -> sorted [[pos or '~', sorted forms]]"""
    return sorted([k if k is not None else '~', sorted(v)] for k, v in r.items())


def custom_lemmatizer(form, pos=None):
    """a deterministic custom lemmatizer used by the C09 cases"""
    out = {}
    if form.endswith('s') and len(form) > 1:
        out[pos] = {form[:-1], form}
        out['v'] = {form[:-1]}
    elif form.startswith('!'):
        out['n'] = {form[1:]}
        out[None] = {form[1:].lower()}
    return out


def lem_pairs(r):
    return sorted([k if k is not None else '~', sorted(v)] for k, v in r.items())


def raw(i):
    """'lexicon|id' -> id"""
    return i.split('|', 1)[1] if '|' in i else i


def handle_search(job):
    import unicodedata
    out = []
    for case in job['cases']:
        fresh_db('search')
        lexs = []
        words_by_lex = {}
        for w in case['words']:
            words_by_lex.setdefault(w[1], []).append(w)
        for lid, ws in words_by_lex.items():
            lex = lmfgen.mini_lexicon(lid, '1')
            syn = {}
            for w in ws:
                wid, _, pos, lemma, forms, senses = w
                for sid, ssid in senses:
                    syn[ssid] = None
                lex['entries'].append({'id': raw(wid), 'meta': None,
                                       'lemma': {'writtenForm': lemma, 'partOfSpeech': pos},
                                       'forms': [{'writtenForm': f} for f in forms],
                                       'senses': [{'id': raw(sid), 'synset': raw(ssid), 'meta': None}
                                                  for sid, ssid in senses]})
            sp = dict(map(tuple, case['synpos']))
            lex['synsets'] = [{'id': raw(ssid), 'ili': '', 'partOfSpeech': sp[ssid], 'meta': None}
                              for ssid in syn]
            lexs.append(lex)
        p = base_dir() / 'search.xml'
        p.write_text(lmfgen.to_xml({'lmf_version': '1.1', 'lexicons': lexs}), encoding='utf-8')
        wn.add(p, progress_handler=None)
        if case.get('extforms'):
            x = lmfgen.mini_lexicon('X', '1')
            x['extends'] = {'id': 'L', 'version': '1'}
            xs = case.get('extsenses') or {}
            sp = dict(map(tuple, case['synpos']))
            x['entries'] = []
            for wid in sorted(set(case['extforms']) | set(xs)):
                ee = {'id': raw(wid), 'external': True}
                if case['extforms'].get(wid):
                    ee['forms'] = [{'writtenForm': f} for f in case['extforms'][wid]]
                if xs.get(wid):
                    ee['senses'] = [{'id': raw(sid), 'synset': raw(ssid), 'meta': None} for sid, ssid in xs[wid]]
                if len(ee) > 2:
                    x['entries'].append(ee)
            used = sorted({ssid for v_ in xs.values() for _, ssid in v_})
            # synsets of L that X's senses go into are declared external; its own are new
            x['synsets'] = [({'id': raw(ssid), 'external': True} if ssid.startswith('L|') else
                             {'id': raw(ssid), 'ili': '', 'partOfSpeech': sp[ssid], 'meta': None})
                            for ssid in used]
            p2 = base_dir() / 'search-ext.xml'
            p2.write_text(lmfgen.to_xml({'lmf_version': '1.1', 'lexicons': [x]}), encoding='utf-8')
            wn.add(p2, progress_handler=None)
        o = dict(case)
        o['calls'] = []
        strings = set()
        try:
            with limit(case.get('timeout', 20)):
                scope = ' '.join(f'{l}:1' for l in case['scope'])
                wbase = wn.Wordnet(scope)
                lems = {'none': None, 'custom': custom_lemmatizer, 'morphy_u': Morphy(),
                        'morphy_i': Morphy(wbase)}
                shared = {}
                for kind, form, pos, norm_on, saf, lemkind in case['queries']:
                    pa = None if pos == '~' else pos
                    kw = {} if norm_on else {'normalizer': None}
                    w = wn.Wordnet(scope, lemmatizer=lems[lemkind], search_all_forms=saf, **kw)
                    cands = lem_pairs(lems[lemkind](form, pa)) if lems[lemkind] else []
                    for c in cands:
                        strings.update(c[1])
                    strings.add(form)
                    try:
                        res = getattr(w, kind)(form, pos=pa)
                        o['calls'].append([kind, form, pos, norm_on, saf, lemkind, cands,
                                           'ok', [f'{x.lexicon().id}|{x.id}' for x in res]])
                    except JobTimeout:
                        raise
                    except Exception as e:
                        o['calls'].append([kind, form, pos, norm_on, saf, lemkind, cands,
                                           'exc:' + exc_name(e), []])
                    # the same query through one long-lived Wordnet per (normalizer, all-forms)
                    # setting whose public `lemmatizer' attribute is assigned before each
                    # query (the documented way to install Morphy(wordnet)): what was asked of
                    # the object under another lemmatizer must not matter
                    key_ = (norm_on, saf)
                    if key_ not in shared:
                        shared[key_] = wn.Wordnet(scope, search_all_forms=saf, **kw)
                    shared[key_].lemmatizer = lems[lemkind]
                    try:
                        res = getattr(shared[key_], kind)(form, pos=pa)
                        o['calls'].append([kind, form, pos, norm_on, saf, lemkind, cands,
                                           'ok', [f'{x.lexicon().id}|{x.id}' for x in res]])
                    except JobTimeout:
                        raise
                    except Exception as e:
                        o['calls'].append([kind, form, pos, norm_on, saf, lemkind, cands,
                                           'exc:' + exc_name(e), []])
                    # the module-level functions are the same search with the defaults
                    # (normalizer on, all forms, no lemmatizer)
                    if norm_on and saf and lemkind == 'none':
                        try:
                            res = getattr(wn, kind)(form, pos=pa, lexicon=scope)
                            o['calls'].append([kind, form, pos, norm_on, saf, lemkind, cands,
                                               'ok', [f'{x.lexicon().id}|{x.id}' for x in res]])
                        except JobTimeout:
                            raise
                        except Exception as e:
                            o['calls'].append([kind, form, pos, norm_on, saf, lemkind, cands,
                                               'exc:' + exc_name(e), []])
        except JobTimeout:
            out.append({'id': case['id'], 'timeout': True})
            continue
        # every sense names the lexicon that declares it; the senses X hangs on words of L are X's
        for w in o['words']:
            w[5] = [[sid, ssid, sid.split('|', 1)[0]] for sid, ssid in w[5]]
            for sid, ssid in (case.get('extsenses') or {}).get(w[0], []):
                w[5].append([sid, ssid, 'X'])
        o['synpos'] = [[ssid, pos_, ssid.split('|', 1)[0]] for ssid, pos_ in case['synpos']]
        # the further forms an in-scope extension adds to a word are forms of the word; with the
        # extension installed but not selected, the word's forms are what forms() reports for it
        if case.get('extforms') and 'X' not in case['scope']:
            for w in o['words']:
                if w[0] in case['extforms'] and w[1] in case['scope']:
                    w[4] = [str(f) for f in next(x for x in wbase.words() if x.id == raw(w[0])
                                                 and x.lexicon().id == w[1]).forms()][1:]
        else:
            for w in o['words']:
                extra = [f for f in (case.get('extforms') or {}).get(w[0], []) if f not in w[4]]
                w[4] = list(w[4]) + extra
        for w in o['words']:
            strings.add(w[3])
            strings.update(w[4])
        # the documented normalisation, computed independently of wn
        def norm(s_):
            return ''.join(c for c in unicodedata.normalize('NFKD', s_.lower())
                           if not unicodedata.combining(c))
        o['norm'] = sorted([s_, norm(s_)] for s_ in strings)
        # every string reachable through normalisation must be in the table too
        extra = {n for _, n in o['norm']} - strings
        o['norm'] += sorted([s_, norm(s_)] for s_ in extra)
        o.pop('queries', None)
        out.append(o)
    return {'obs': out}


def handle(job):
    if job.get('mode') == 'search':
        return handle_search(job)
    out = []
    for case in job['cases']:
        fresh_db('words')
        lid = f"m{case['id']}"
        p = base_dir() / 'words.xml'
        # case['xforms'] = [[word index, [forms]] ...]: those further forms are added to the
        # word by an extension of the lexicon (ExternalLexicalEntry + Form); a Wordnet over
        # the lexicon and the extension has the same words with the same forms
        xf = {k: fs for k, fs in case.get('xforms', [])}
        base_words = [[w_[0], w_[1], [f for f in w_[2] if f not in xf.get(k, [])]] + list(w_[3:])
                      for k, w_ in enumerate(case['words'])]
        p.write_text(lmfgen.to_xml({'lmf_version': '1.1',
                                    'lexicons': [word_lexicon(lid, base_words)]}),
                     encoding='utf-8')
        wn.add(p, progress_handler=None)
        scope17 = f'{lid}:1'
        if xf:
            x = lmfgen.mini_lexicon(lid + 'x', '1')
            x['extends'] = {'id': lid, 'version': '1'}
            x['entries'] = [{'id': f'{lid}-w{k}', 'external': True,
                             'forms': [{'writtenForm': f} for f in fs]} for k, fs in sorted(xf.items())]
            p2 = base_dir() / 'words-x.xml'
            p2.write_text(lmfgen.to_xml({'lmf_version': '1.1', 'lexicons': [x]}), encoding='utf-8')
            wn.add(p2, progress_handler=None)
            scope17 = f'{lid}:1 {lid}x:1'
        o = {'id': case['id'], 'words': case['words'], 'calls': []}
        try:
            with limit(case.get('timeout', 20)):
                w = wn.Wordnet(scope17)
                mi = Morphy(w)
                mu = Morphy()
                ws = wn.Wordnet(scope17, normalizer=None)
                for form, pos in case['queries']:
                    pa = None if pos == '~' else pos
                    for init, m in ((True, mi), (False, mu)):
                        try:
                            row = [form, pos, init, 'ok', res_map(m(form, pa))]
                            # a Wordnet using this lemmatizer (exact matching, all forms): the
                            # words it finds for the query, as (pos, lemma) pairs
                            wl = wn.Wordnet(scope17, lemmatizer=m, normalizer=None)
                            row.append(sorted([x.pos, str(x.lemma())] for x in wl.words(form, pos=pa)))
                            o['calls'].append(row)
                            # ... and one long-lived Wordnet whose lemmatizer attribute is
                            # assigned (w.lemmatizer = Morphy(w), as documented), asked in turn
                            # under the initialized and the uninitialized Morphy
                            ws.lemmatizer = m
                            o['calls'].append(row[:5] + [sorted(
                                [x.pos, str(x.lemma())] for x in ws.words(form, pos=pa))])
                        except JobTimeout:
                            raise
                        except Exception as e:
                            o['calls'].append([form, pos, init, 'exc:' + exc_name(e), []])
        except JobTimeout:
            o = {'id': case['id'], 'timeout': True}
        out.append(o)
    return {'obs': out}


if __name__ == '__main__':
    main_loop(handle, per_job_timeout=3600)
