"""Regenerate MANIFEST.json from the table below (run after adding a check)."""
import json
from pathlib import Path

VERIF = Path(__file__).resolve().parent.parent
PROPS = [json.loads(l) for l in (VERIF / 'properties.jsonl').read_text().splitlines() if l.strip()]

CHECKS = {
 'C13': dict(
    engine='taxonomy',
    category='model_checking',
    technique='TLA+ spec WnTaxonomy; TLC exhaustive on all digraphs <=3 (4 thorough) nodes; '
              'TLC-emitted graphs replayed on wn.taxonomy, recorded results judged by TLC (Judge_C13)',
    text='The graph-theoretic meaning of every taxonomy function is an explicit TLA+ operator; TLC '
         'checks the design theorems (symmetry, error iff nothing shared, LCH subset of common, '
         'algorithm of taxonomy_depth = definition on DAGs) on every labelled digraph of the bound, '
         'then every graph TLC explored plus random larger ones is run through the real code and '
         'TLC decides, record by record, whether the observed paths/depths/sets/paths are admissible.',
    note='Trusted: TLC, the LMF materialiser, sqlite. Strings are atoms. On cyclic graphs the '
         'property leaves two readings of depth / fake root open; both are admitted there only. A seeded part '
         'of the graphs is materialised spread over a lexicon and an extension of it (same model graph).',
    design='DESIGN.md section 4 C13'),
 'C14': dict(
    engine='taxonomy',
    category='model_checking',
    technique='TLA+ spec WnTaxonomy/WnIC (exact rationals); TLC checks bounds/symmetry on all digraphs <=3 nodes; '
              'recorded similarity values (floats mapped back to rationals) judged by TLC (Judge_C14)',
    text='Each metric is an explicit set of admissible exact rationals derived from shortest-path length, '
         'lowest common hypernyms, taxonomy depth and weights; TLC proves the bound/symmetry theorems on the '
         'bounded model and then decides for every recorded call of path/wup/lch/res/jcn/lin on every ordered '
         'pair of every generated graph whether the value (and the wn.Error cases) is admissible, symmetric '
         'and maximal for identical synsets.',
    note='Trusted: TLC, float->rational recovery in the harness (tolerance 1e-9, logarithms undone by exp), '
         'materialiser. lin is checked with power-of-two weights only. Part of the graphs is spread over a '
         'lexicon and an extension of it.',
    design='DESIGN.md section 4 C14'),
 'C15': dict(
    engine='taxonomy',
    category='model_checking',
    technique='TLA+ spec WnIC; TLC checks conservation/monotonicity on all digraphs <=3 nodes x corpora; '
              'weights returned by wn.ic.compute judged by TLC against the model (Judge_C15)',
    text='IcTotal/IcWeight define the weights as exact scaled integers (once per word synset and ancestor); '
         'TLC proves Conserved, Monotone, ProbInUnit, UnknownIgnored on the bounded model and that the '
         'per-path walk of the original code differs exactly on convergent graphs; every weight, total, '
         'probability and information content recorded from compute() on generated graphs x corpora x '
         'distribute x smoothing is compared by TLC.',
    note='Trusted: TLC, float->rational recovery, materialiser. One (folded) part of speech per graph; part of '
         'the graphs is spread over a lexicon and an extension of it.',
    design='DESIGN.md section 4 C15'),
 'C05': dict(
    engine='store',
    category='model_checking',
    technique='TLA+ state machine WnStore/MC_Store (add/remove/ILI with unfolded transactions and faults) model-checked by TLC; '
              'implementation state graph explored breadth-first with snapshot databases + random histories, every step judged by TLC (Judge_Store)',
    text='The database is a TLA+ state machine over a universe of seven related lexicons (bases, extension, extension of an '
         'extension, dependent, two versions, prefix id); TLC checks Canonical (links in step, no residue, extensions have '
         'bases), WholeOperationsOnly and AbortRestores on every history of the bounded instance. The real code is then driven '
         'through every operation of the alphabet from a snapshot database of every abstract state it reaches (depth-bounded) '
         'and through random long histories; after each call the observed state (installed order, ILI table, lookup tables, '
         'dependency/extension links via SQL and via the API, ownerless rows, FK/integrity/ownership audits) must equal the '
         'model successor, and the owned rows of each lexicon must be the same function of the lexicon as in a fresh database.',
    note='Trusted: TLC, SQLite, the observer (natural-key dump), the materialiser. Tags/pronunciations have no owner column: '
         'they are counted per base lexicon; their survival after removing an extension is a listed known finding.',
    design='DESIGN.md section 4 C05'),
 'C06': dict(
    engine='store',
    category='model_checking',
    technique='TLA+ WnStore transactions with a Fault action (TLC: AbortRestores, WholeOperationsOnly); exhaustive fault '
              'enumeration on the code (every progress callback, every denied write, close(), corrupted references) judged by TLC',
    text='Model: add is one transaction per resource, remove one per matched lexicon, a fault may strike between any two '
         'steps and restores the committed state. Binding: for each scenario every callback k=1..K and every write '
         'authorisation n=1..N is made to fail, plus an exception from close() and every position of six corruption kinds; '
         'TLC checks that the raw database (row ids included) is unchanged after a failed add, that an interrupted remove '
         'leaves a prefix of complete per-lexicon removals, and that a following valid operation gives the model state.',
    note='Trusted: TLC, SQLite, sqlite3 authorizer semantics. close() runs after the commit by design: all-or-nothing there.',
    design='DESIGN.md section 4 C06'),
 'C07': dict(
    engine='store',
    category='model_checking',
    technique='TLA+ WnStore (route-independent Add, Idempotent, SkipWhole checked by TLC); 16 supply routes x resources x start '
              'states executed on the code, each step judged by TLC, content digests judged functional in the resource',
    text='The model action Add does not mention the route; TLC checks idempotence and whole-skipping of extensions without base. '
         'Every resource is supplied as xml, gz, xz (also written in several members / streams), package, collection, tar/tar.gz/tar.xz of file, package and collection, '
         'in-memory resource (also the same object again), then repeated through another route; arbitrary path trees are judged '
         'against WnProject (which paths are refused, which resources are found); TLC checks the successor state, '
         'that repetition changes nothing (raw digest), inputs unchanged, no temporary file left, and that the stored content '
         'is a function of the resource only.',
    note='Trusted: TLC, stdlib gzip/lzma/tarfile. The order in which packages of a collection are added is unspecified.',
    design='DESIGN.md section 4 C07'),
 'C19': dict(
    engine='store',
    category='model_checking',
    technique='TLA+ WnStore AddIli (TLC: IliOnly, IliIdempotent, IliCommutes); breadth-first + all interleavings of lexicon adds '
              'and index loads executed on the code, judged by TLC',
    text='AddIliResult gives every listed id the file status (default active) and definition and touches nothing else; TLC proves '
         'idempotence and commutation with lexicon adds on the bounded instance; the code is run over the state graph of '
         '{lexicon resources, removals, three index files (upper/lower-case header, missing columns, CRLF)} and all '
         'interleavings; the ilis table, wn.ilis() and the per-lexicon row digests are compared by TLC.',
    note='Trusted: TLC, SQLite. ILIs that no synset uses are visible only in the table dump when a lexicon is installed.',
    design='DESIGN.md section 4 C19'),
 'C08': dict(
    engine='store',
    category='model_checking',
    technique='TLA+ WnSelect (Glob on strings, Select, SelectError) checked by TLC on every order of addition x specifier x language; '
              'TLC-emitted databases rebuilt with the code, answers of wn.lexicons/Wordnet/remove judged by TLC (Judge_C08)',
    text='Specifier semantics is an explicit TLA+ operator on strings (glob with *, bare id = most recently added, lists = union, '
         'language filter, error rule); TLC cross-checks Glob against an independent definition and proves UnionOfMembers, '
         'BareIsOne, NeverUnmatched, StarIsAll, ExactIsExact, ErrorRule on all sequences of the bound. Every database state TLC '
         'explored is rebuilt through wn.add in that order and each specifier x language is asked of wn.lexicons(), '
         'wn.Wordnet() and wn.remove(); TLC compares the sets and the error behaviour.',
    note='Trusted: TLC string operators, SQLite GLOB for the generated patterns (star, and the undocumented ? and [...] without ranges). One lexicon of the universe has a language tag with an upper-case subtag (fr-CA), asked as given.',
    design='DESIGN.md section 4 C08'),
 'C09': dict(
    engine='words',
    category='model_checking',
    technique='TLA+ WnSearch (exact / stored-normalised / back-off / lemmatizer candidates / pos filter) checked by TLC (MC_Search); '
              'recorded words/senses/synsets searches judged by TLC (Judge_C09)',
    text='Find() is the documented three-level procedure as a TLA+ operator over word records and a normalisation table; TLC '
         'proves ExactAlwaysFound, Sound, ExactOnlyWithoutNormalizer, BackoffOnlyIfEmpty, LemmaOnly, Images on all lexicons of '
         'the bound. Random lexicons with case/diacritic/compatibility variants are searched through the real Wordnet under all '
         'combinations of normalizer, search_all_forms, lemmatizer (none, custom, Morphy uninitialised/initialised) and part of '
         'speech; TLC compares result sets and rejects duplicates.',
    note='Trusted: TLC, the harness normalisation table (unicodedata, independent of wn), the logged lemmatizer candidates. Every query is also asked of one long-lived Wordnet whose lemmatizer attribute is assigned before the query.',
    design='DESIGN.md section 4 C09'),
 'C17': dict(
    engine='words',
    category='model_checking',
    technique='TLA+ WnMorphy (24 detachment rules on real strings) checked by TLC (MC_Morphy); recorded Morphy calls judged by TLC (Judge_C17)',
    text='MorphyInit / MorphyUninit give the exact result map; TLC proves SoundInit, CompleteInit, UninitHasOriginal, '
         'NoFullSuppletion, SatellitesShareRules on the bounded model; ~30k recorded calls on random lexicons whose lemmas and '
         'irregular forms make every rule fire and collide are compared map-for-map by TLC.',
    note='Trusted: TLC string operators. Forms carry no script. The Wordnet rows are also asked of one long-lived Wordnet whose lemmatizer is reassigned.',
    design='DESIGN.md section 4 C17'),
 'C18': dict(
    engine='validate',
    category='model_checking',
    technique='TLA+ WnValidate (18 checks as comprehensions, relation tables as data) with MC_Validate; reports of validate() on '
              'defect-injected lexicons judged by TLC (Judge_C18)',
    text='Each check is a set comprehension over the lexicon in relational form; TLC checks that the reverse-relation table is an '
         'involution and basic independence facts, then judges every report returned for a clean lexicon, each of 34 single '
         'defects, pairs and random combinations under several select arguments: validate() must return, contain exactly the '
         'selected codes, list exactly the model items (a stated range for W203/W404), relation contexts must name a real '
         'offending relation, and E204/E401 must make add() fail.',
    note='Trusted: TLC, the flattening of the loaded lexicon into relational form, relations.json (snapshot of wn.constants). Defect battery includes entries sharing an id with senses in the same synset.',
    design='DESIGN.md section 4 C18'),
 'C04': dict(
    engine='query',
    category='model_checking',
    technique='TLA+ WnQuery (S, E, default mode, LexIds) with MC_World/MC_Scope (TLC: InScope, Insensitive over every add/remove history); '
              'battery of all query/navigation/relation calls under 11-15 selections recorded before and after outside lexicons come and go, judged by TLC',
    text='The query model defines for every Wordnet configuration the selected and expand lexicons and, per entity, the lexicons it may see; '
         'TLC proves on a fixed small world under every history of add/remove that all results stay in the selection (family in default mode) '
         'and that results of a restricted wordnet are insensitive to lexicons outside selection and expand set (incl. unselected extensions). '
         'Random worlds (two versions of one id, extension, other-language lexicon sharing ILIs) are queried through every public method; TLC '
         'checks membership in the selection, exact forms/tags/examples/definitions/counts visibility, and a functional monitor compares each '
         'configuration before/after removing and re-adding every outside lexicon.',
    note='Trusted: TLC, materialiser, observer naming entities by (lexicon specifier, id). Two listed known findings (forms / tags of unselected extensions). roots() / leaves() per part of speech (a/s merged) must stay inside the selection too.',
    design='DESIGN.md section 4 C04'),
 'C10': dict(
    engine='query',
    category='model_checking',
    technique='TLA+ WnQuery navigation operators with MC_World/MC_Nav (TLC: InverseLaws, TranslateSymmetric, NoTranslateWithoutIli); '
              'recorded word()/synset()/senses()/synsets()/words()/translate()/==/hash on random worlds judged by TLC',
    text='DeclWord/DeclSynset, rank-ordered sense lists, image laws and Translate are TLA+ operators; TLC proves the inverse laws and symmetry of '
         'translation on every installed-set of a small world. On random worlds with two versions of a lexicon, extensions attaching senses to '
         'base entries/synsets, repeated/proposed/absent ILIs, every entity is navigated under default, single, multiple and language selections; '
         'TLC checks the declared targets, rank order, images in order, inverse membership, translation sets, and ==/hash agreement of objects '
         'reached by different routes.',
    note='Trusted: TLC, materialiser. Order among senses of equal rank is unspecified and accepted in any order. Word translation is compared as a list (image of sense translation, duplicates kept).',
    design='DESIGN.md section 4 C10'),
 'C11': dict(
    engine='query',
    category='model_checking',
    technique='TLA+ WnQuery relations/closure/paths; MC_Query (TLC: the queue+visited and agenda algorithms refine Closure/RelPaths on all digraphs <=3 nodes); '
              'recorded relations()/get_related()/relation_map()/get_related_synsets()/closure()/relation_paths() judged by TLC',
    text='Visible relation rows (defining lexicon and target lexicon both visible from the source), relation keys with dc:type, reachability and '
         'maximal simple paths are TLA+ operators; TLC proves that transcriptions of the closure and relation_paths algorithms terminate and equal '
         'the declarative definitions on every relation graph of the bound. Random relation multigraphs (self-loops, cycles, parallel relations '
         'of different type/dc:type, duplicates, non-standard types, metadata) over base+extension(+extension) worlds are queried in five to seven '
         'scopes with seven type-argument sets; TLC compares key sets, targets per name, metadata, closures and path sets; non-termination is a '
         'timeout violation.',
    note='Trusted: TLC, materialiser. Expand lexicons are off in this check (C12).',
    design='DESIGN.md section 4 C11'),
 'C12': dict(
    engine='query',
    category='model_checking',
    technique='TLA+ WnQuery ExpandedPairs/placeholders with MC_World/MC_Expand (TLC: ExpandEmptyIsOwn, DefaultExpandIsInstalledDeps, BorrowedNeedIli); '
              'recorded relations under seven expand settings judged by TLC',
    text='Borrowing by ILI (sources in E sharing the ILI, relation and target inside E, targets without ILI dropped, back-mapping to all synsets '
         'of the selection with the target ILI or a placeholder, relation keeping the expand lexicon source/target/lexicon) is one TLA+ operator; '
         'TLC proves the structural theorems on every installed-set of a small world. Random L/E/F worlds with overlapping, repeated, proposed, '
         'absent ILIs and declared/undeclared/missing dependencies are queried with expand in {default, empty, E, E F, F, *, unknown}; TLC checks '
         'expanded_lexicons(), the warning about missing dependencies, own-first order, target sets, placeholders followed two more steps and '
         'hypernym paths through placeholders.',
    note='Trusted: TLC, materialiser. relation_map() is a mapping and keeps one target per relation key.',
    design='DESIGN.md section 4 C12'),
 'C01': dict(
    engine='lmf',
    category='model_checking',
    technique='TLA+ WnLmf document model (relational normal form) with MC_Lmf; everything the public API reports for each added lexicon '
              'is recorded and compared by TLC with the document tables (Judge_C01)',
    text='Documents are held in a semantic normal form of 16 tables (defaults explicit, empty = absent, order in index columns). For random '
         'valid resources of every LMF version with every optional attribute/child, metadata on every element and adversarial Unicode / '
         'XML-special payloads, added under several batch sizes, TLC compares lexicon attributes, words, forms with script/id, tags, '
         'pronunciations, senses in entry order with examples/counts/frames/adjposition/lexicalized/metadata, synsets with pos, ILI (incl. '
         'proposed + definition), first definition, examples, lexfile, lexicalized, metadata and members in declared order, table by table.',
    note='Trusted: TLC, the materialiser (independent of wn.lmf.dump), the flattener, string equality of payloads. Extension contributions to '
         'base entities are checked on relational worlds in C04/C10/C11.',
    design='DESIGN.md section 4 C01'),
 'C02': dict(
    engine='lmf',
    category='model_checking',
    technique='TLA+ WnLmf Project(T, version) with MC_Lmf (TLC: idempotent, monotone, identity on expressible documents); '
              'load(dump(R, v)) for 4 versions and dump.load fixed points recorded and judged by TLC (Judge_C02)',
    text='Project says what each LMF version can express of a resource; TLC proves its algebra on a document whose optional features are '
         'switched on one by one. Random resources in loader normal form (plain lexicons and extensions with all External* patterns, '
         'dependencies, pronunciations, tags, counts, entry- and lexicon-level frames, every optional attribute) are dumped in all four '
         'versions and loaded back; TLC requires equality with Project(R, v) table by table, byte-identical re-dump, acceptance by is_lmf, '
         'and an unchanged argument; foreign files incl. xml:space="preserve" are checked for the dump.load fixed point.',
    note='Trusted: TLC, the flattener (semantic normal form). WN-LMF 1.0 cannot express extensions: nothing is claimed there.',
    design='DESIGN.md section 4 C02'),
 'C03': dict(
    engine='lmf',
    category='model_checking',
    technique='TLA+ WnLmf Project + frame-link semantics; export in 4 versions x source versions recorded, loaded and re-imported; judged by TLC (Judge_C03)',
    text='For random non-extension resources (1-2 lexicons per export) of every source version the exported file of every version is loaded and '
         'compared by TLC with Project(document, version): entries, forms, tags, pronunciations, senses, synsets, ILIs incl. proposed, all '
         'definitions with language and source sense, examples, counts, relations with metadata (order-insensitive), dependencies, metadata; '
         'sense-frame links are compared as links whatever syntax carries them; each export is added to an empty database and the digest of '
         'everything the public API reports must equal that of the source database when the version can express the lexicon.',
    note='Trusted: TLC, flattener, API observer digest. One listed known finding (links of id-less frames in 1.1+ exports).',
    design='DESIGN.md section 4 C03'),
 'C20': dict(
    engine='lmf',
    category='model_checking',
    technique='TLA+ WnLmf acceptance rules (element tables per version, single-valued children, required attributes, header) with MC_Accepts; '
              'single-fault mutations of valid documents run through load/add/is_lmf/scan_lexicons and judged by TLC (Judge_C20)',
    text='Accepts(version, mutation) is an explicit TLA+ predicate checked for totality and consistency by TLC over the whole mutation '
         'alphabet. Valid generated documents of every version are mutated one fault at a time (attribute removed, element renamed or of a '
         'later version, child duplicated, end tag removed/mismatched, truncation, header faults, quoting/order changes, comments, '
         'character references in identifying attributes, the document as dump() itself writes it); TLC checks that '
         'load() raises exactly for rejected documents, neutral mutations load identically, add() raises and leaves the raw database '
         'unchanged, is_lmf() agrees with the header rule, and scan_lexicons() equals the lexicons of the full load in order.',
    note='Trusted: TLC, the mutation generator (line-based on the materialiser output), expat for well-formedness in general. '
         'One listed known finding (add() returns at "nothing to do" without parsing a malformed file whose scanned lexicons are all skipped). Header alphabet includes a byte order mark, a leading blank (refused) and blanks / CR after the header lines (neutral).',
    design='DESIGN.md section 4 C20'),
 'C16': dict(
    engine='functional',
    category='model_checking',
    technique='TLA+ trace specification Trace_Functional (memo of the first result per call and epoch; total, resynchronising) with its abstract '
              'model MC_Functional checked by TLC; a battery of every public read-only call recorded twice per process under several '
              'PYTHONHASHSEED values and validated line by line by TLC',
    text='The monitor says: within a database epoch every call key has one result; new processes and read-only calls change nothing. TLC '
         'checks on the abstract model that the monitor raises no false alarm for a deterministic system and flags a seed-dependent call as soon '
         'as two seeds ask it. For adversarial graph worlds (two LCS, diamonds, cycles), multi-lexicon query worlds and random documents the '
         'battery (queries, navigation, relations, taxonomy, similarity, IC, searches, Morphy, validate, dump, export, describe) runs twice in '
         'separate interpreters with different hash seeds; ~10^5 trace lines are consumed by TLC, which reports each call whose canonical '
         'rendering (order of lists and mappings, float repr, file bytes) differs.',
    note='Trusted: TLC, the canonical rendering and SHA-256 digests computed by the harness. Other Wordnet configurations of the same entities are asked before or after the main battery depending on the process and the pass.',
    design='DESIGN.md section 4 C16'),
}

REASON_TODO = 'check not built yet in this round (planned, see DESIGN.md section 8)'


def main():
    checks = []
    for p in PROPS:
        pid = p['id']
        c = CHECKS.get(pid)
        if not c:
            continue
        checks.append({
            'property_id': pid,
            'quick_cmd': f'bin/check {pid} --tier quick',
            'thorough_cmd': f'bin/check {pid} --tier thorough',
            'evidence_file': f'/verif/evidence/{pid}.json',
            'replay_cmd_template': f'bin/check {pid} --replay {{path}}',
            'engine': c['engine'],
            'level_claimed': {'category': c['category'], 'text': c['text'],
                              'design_ref': c['design']},
            'level_note': c['note'],
            'technique': c['technique'],
        })
    man = {
        'version': 1,
        'setup_cmd': 'true',
        'hooks': {'guard': 'WN_VERIF', 'enable': 'no hooks: wn is a sequential library; the '
                  'checks observe it through the public API, the SQLite file, '
                  'set_trace_callback / set_authorizer and the documented progress_handler',
                  'baseline_off_cmd': 'cd /repo && /venv/bin/python -m pytest -q -p no:cacheprovider --timeout=900',
                  'source_commits': [], 'add_only': True},
        'engines': [
            {'name': 'taxonomy', 'path': 'spec/WnTaxonomy.tla', 'serves_properties': ['C13', 'C14', 'C15'],
             'kind_free_text': 'TLA+ operators over hypernym graphs + TLC judge of recorded results'},
            {'name': 'store', 'path': 'spec/WnStore.tla', 'serves_properties': ['C05', 'C06', 'C07', 'C08', 'C19'],
             'kind_free_text': 'TLA+ state machine of the lexicon database + TLC judge of recorded steps'},
            {'name': 'words', 'path': 'spec/WnSearch.tla', 'serves_properties': ['C09', 'C17'],
             'kind_free_text': 'TLA+ operators on real strings (Morphy rules, form search) + TLC judge'},
            {'name': 'validate', 'path': 'spec/WnValidate.tla', 'serves_properties': ['C18'],
             'kind_free_text': 'TLA+ comprehensions for the 18 validator checks + TLC judge'},
            {'name': 'query', 'path': 'spec/WnQuery.tla', 'serves_properties': ['C04', 'C10', 'C11', 'C12'],
             'kind_free_text': 'TLA+ model of Wordnet selection, navigation, relations and ILI expansion + TLC judge'},
            {'name': 'lmf', 'path': 'spec/WnLmf.tla', 'serves_properties': ['C01', 'C02', 'C03', 'C20'],
             'kind_free_text': 'TLA+ document model (semantic normal form tables), Project per version, acceptance rules + TLC judge'},
            {'name': 'functional', 'path': 'spec/Trace_Functional.tla', 'serves_properties': ['C16'],
             'kind_free_text': 'TLA+ trace specification with memo history variable, validated line by line by TLC'},
            {'name': 'config', 'path': 'spec/WnConfig.tla', 'serves_properties': [],
             'kind_free_text': 'beyond the listed properties (bin/check X01): the project index of wn.config as a '
                               'TLA+ state machine, TLC-simulated behaviours replayed on WNConfig, every call judged'},
            {'name': 'store-concurrency', 'path': 'spec/MC_StoreConc.tla', 'serves_properties': [],
             'kind_free_text': 'beyond the listed properties (bin/check X03): MC_Store with a reading second '
                               'connection and a crash at every point of every transaction; the real code is '
                               'watched by a second connection at every progress callback and killed (os._exit in a '
                               'child process) at every progress callback'},
            {'name': 'session', 'path': 'spec/WnSession.tla', 'serves_properties': [],
             'kind_free_text': 'beyond the listed properties (bin/check X04): data directories and the pool of '
                               'cached connections; TLC-simulated behaviours replayed in one process, every call judged'},
            {'name': 'download', 'path': 'spec/WnDownload.tla', 'serves_properties': [],
             'kind_free_text': 'beyond the listed properties (bin/check X02): wn.download() over cache, mirrors and '
                               'a scripted HTTP transport, TLC-simulated behaviours replayed, every step judged'},
        ],
        'checks': checks,
        'not_applicable': [{'property_id': p['id'], 'reason': REASON_TODO}
                           for p in PROPS if p['id'] not in CHECKS],
        'notes': 'Every verdict is computed by TLC: bounded model checking of the specification, '
                 'and validation of traces recorded from the real code against it.',
    }
    (VERIF / 'MANIFEST.json').write_text(json.dumps(man, indent=1) + '\n')


if __name__ == '__main__':
    main()
