"""graph -> lexicon (shared by the taxonomy driver and the C16 worlds; importable
without wn)"""
from harness import lmfgen


def graph_lexicon(g) -> dict:
    lid = f"g{g['id']}"
    lex = lmfgen.mini_lexicon(lid)
    n = g['n']
    ss = []
    for x in range(1, n + 1):
        rels = []
        for e in g['hyp']:
            if e[0] == x:
                rels.append({'relType': e[2] if len(e) > 2 else 'hypernym',
                             'target': f'{lid}-s{e[1]}', 'meta': None})
        for e in g.get('hypo', []):
            if e[0] == x:
                rels.append({'relType': e[2] if len(e) > 2 else 'hyponym',
                             'target': f'{lid}-s{e[1]}', 'meta': None})
        ss.append({'id': f'{lid}-s{x}', 'ili': '', 'partOfSpeech': g['pos'][x - 1],
                   'relations': rels, 'meta': None})
    lex['synsets'] = ss
    entries = []
    k = 0
    for form, senses in g.get('words', []):
        bypos = {}
        for sx in senses:
            bypos.setdefault(g['pos'][sx - 1], []).append(sx)
        for pos, sxs in sorted(bypos.items()):
            k += 1
            entries.append({
                'id': f'{lid}-w{k}', 'meta': None,
                'lemma': {'writtenForm': form, 'partOfSpeech': pos},
                'senses': [{'id': f'{lid}-w{k}-{sx}', 'synset': f'{lid}-s{sx}',
                            'meta': None} for sx in sxs]})
    lex['entries'] = entries
    return lex
