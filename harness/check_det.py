"""C16: results are a function of database content and arguments only.
Model: spec/Trace_Functional.tla (a total trace specification with a memo of the
first result per call) and its small abstract model MC_Functional."""
from __future__ import annotations

import json
import random
import tempfile
from concurrent.futures import ThreadPoolExecutor
from pathlib import Path

from harness import docs, graphs, lmfgen, worlds
from harness.core import (Verdict, tlc_model, run_tlc, run_driver, seed, NCPU, scratch,
                          MachineryError, Judgement)
from harness.drv_tax_lex import graph_lexicon


def graph_world(k, g, rng):
    """a hypernym graph with words so that similarity / IC / search calls have content"""
    n = g['n']
    # ('ax' and 'axe': Morphy proposes both for 'axes', so a lemmatized search has several
    # candidates that are different words - the order of its results must not depend on
    # how the candidate set happens to be iterated)
    forms = ['ax', 'axe', 'cat', 'dog', 'bank', 'bark', 'run']
    g = dict(g)
    g['words'] = [[f, sorted(rng.sample(range(1, n + 1), min(n, rng.choice([1, 2, 2, 3]))))]
                  for f in forms[:rng.randint(2, 7)]]
    lex = graph_lexicon(g)
    # non-reciprocated relations and frames on multi-sense entries: order-sensitive places
    for ss in lex['synsets']:
        for t in rng.sample(lex['synsets'], min(2, len(lex['synsets']))):
            ss.setdefault('relations', []).append({'relType': rng.choice(['also', 'similar', 'mero_part']),
                                                   'target': t['id'], 'meta': None})
    lex['frames'] = [{'id': f"{lex['id']}-sb{j}", 'subcategorizationFrame': f'frame {j}'} for j in range(3)]
    for e in lex['entries']:
        for s in e['senses']:
            s['subcat'] = [f['id'] for f in rng.sample(lex['frames'], rng.randint(1, 3))]
    lid = lex['id']
    return {'id': k, 'docs': [{'lmf_version': '1.3', 'lexicons': [lex]}], 'scope': f'{lid}:1',
            'corpus': [rng.choice(forms) for _ in range(6)], 'queries': ['cat', 'cats', 'Dog', 'running', 'axes']}


def query_world(k, rng):
    w = worlds.scope_world(rng)
    docs_ = [w.resource([l[0]]) for l in w.lex]
    return {'id': k, 'docs': docs_, 'scope': rng.choice(['a:1', 'a:1 x:1', 'u:1', 'a:*']),
            'expand': rng.choice(['', 'a:1', '*']),
            # (lemmas of the world itself: the information content is then not trivial)
            'corpus': ['cat', 'dog', 'cat'] + [e[3] for e in w.entries][:6],
            'queries': ['cat', 'Cat', 'dogs']}


def expand_world(k, rng):
    # hypernym paths through placeholders of an expand lexicon (they and the simulated
    # root share the rowid 0: ties in every order by rowid)
    w = worlds.expand_world(rng)
    expand = rng.choice(['e:1', '*', 'e:1', None, None])
    if rng.random() < 0.5:
        # several installed dependencies and no expand argument: the expand lexicons are
        # then worked out from the <Requires> elements, in their order
        extra = []
        for i in range(rng.randint(2, 4)):
            s = w.add_lexicon(f'p{i}', '1', lang='en')
            worlds.fill_lexicon(w, s, rng, 2, 0, ['i1', 'i2', 'i3', ''])
            extra.append(s)
        l = next(x for x in w.lex if x[0] == 'l:1')
        l[5] = [r for r in l[5] if r != 'zz:9'] + extra
        rng.shuffle(l[5])
        w.lex.sort(key=lambda x: x[0] == 'l:1')      # the dependent lexicon last: all found
        expand = None
    docs_ = [w.resource([l[0]]) for l in w.lex]
    return {'id': k, 'docs': docs_, 'scope': 'l:1', 'expand': expand,
            'corpus': ['cat', 'dog'] + [e[3] for e in w.entries][:6], 'queries': ['cat']}


def doc_world(k, rng):
    res = docs.random_resource(rng, rng.choice(['1.0', '1.1', '1.3']), adversarial=False, size=4)
    scope = ' '.join(f"{L['id']}:{L['version']}" for L in res['lexicons'])
    return {'id': k, 'docs': [res], 'scope': scope, 'corpus': ['cat', 'Dog', 'cat'],
            'queries': ['cat', 'Dog']}


def validate_trace(events_file: Path, timeout=3600):
    r = run_tlc('Trace_Functional', 'Trace_Functional.cfg', workers=1,
                env={'TRACE_FILE': str(events_file)}, timeout=timeout, heap='6g')
    return r


def c16(tier: str) -> int:
    v = Verdict('C16', tier)
    thorough = tier == 'thorough'
    v.assumptions = [
        'results are rendered canonically by the harness: lists and mappings in order, floats by repr, sets sorted, '
        'entities by (lexicon specifier, id), files by SHA-256; TLC compares the digests',
        'hash randomisation is exercised through PYTHONHASHSEED of separate interpreter processes']
    v.add_model('MC_Functional (the monitor raises no false alarm and catches a seed-dependent call)',
                tlc_model('MC_Functional'))
    rng = random.Random(seed() + 16)
    cases = []
    k = 0
    gs = graphs.cases(tier, seed() + 16, exhaustive3=False, n4=0, nrandom=0, pos_variants=False)   # adversarial shapes
    for g in gs[:(len(gs) if thorough else 14)]:
        k += 1
        cases.append(graph_world(k, g, rng))
    for _ in range(40 if thorough else 6):
        k += 1
        gg = graphs.random_graph(rng, rng.randint(4, 6), 0.3, rng.random() < 0.6)
        cases.append(graph_world(k, graphs.finish(gg, rng, 9000 + k), rng))
    for _ in range(60 if thorough else 8):
        k += 1
        cases.append(query_world(k, rng))
    for _ in range(60 if thorough else 8):
        k += 1
        cases.append(doc_world(k, rng))
    for _ in range(60 if thorough else 14):
        k += 1
        cases.append(expand_world(k, rng))
    seeds = [0, 1, 2, 3] + ([5, 7, 11, 13, 17, 19, 23, 29, 31, 37, 41, 43] if thorough else [seed() + 100])
    per = max(1, len(cases) // NCPU)
    jobs = [{'cases': cases[j:j + per]} for j in range(0, len(cases), per)]
    by_case = {c['id']: [] for c in cases}
    timeouts = []

    def run_seed(s):
        return s, run_driver('drv_det.py', jobs, timeout=3000, hashseed=s, procs=max(2, NCPU // len(seeds)))
    with ThreadPoolExecutor(max_workers=len(seeds)) as ex:
        results = list(ex.map(run_seed, seeds))
    for s, res in results:
        for j, r in zip(jobs, res):
            if r is None or 'obs' not in r:
                timeouts.extend(c['id'] for c in j['cases'])
                continue
            for o in r['obs']:
                if o.get('timeout'):
                    timeouts.append(o['id'])
                else:
                    by_case[o['id']].append((s, o['events']))
    for cid in sorted(set(timeouts)):
        v.violation(f'world {cid}: the battery did not terminate', {'world': cid})
    # one trace per shard: World / Proc / Call lines
    d = Path(tempfile.mkdtemp(prefix='det-', dir=scratch()))
    shards = [[] for _ in range(NCPU)]
    ncalls = 0
    for n, (cid, runs) in enumerate(sorted(by_case.items())):
        sh = shards[n % NCPU]
        sh.append({'ev': 'World', 'w': cid})
        for s, events in runs:
            sh.append({'ev': 'Proc', 'w': cid, 'seed': str(s)})
            for key, val in events:
                sh.append({'ev': 'Call', 'w': cid, 'q': key, 'r': val})
                ncalls += 1
    files = []
    for n, sh in enumerate(shards):
        if sh:
            p = d / f'trace{n}.ndjson'
            p.write_text('\n'.join(json.dumps(e, ensure_ascii=False) for e in sh) + '\n', encoding='utf-8')
            files.append((p, len(sh)))
    j = Judgement()
    with ThreadPoolExecutor(max_workers=NCPU) as ex:
        outs = list(ex.map(lambda f: validate_trace(f[0]), files))
    for (p, nlines), r in zip(files, outs):
        done = [x for x in r.printed() if isinstance(x, dict) and x.get('k') == 'DONE']
        if not r.ok or not done or done[0]['lines'] != nlines:
            raise MachineryError(f'trace validation failed on {p.name}:\n{r.out[-3000:]}')
        j.records += nlines
        j.judged += nlines
        j.wall += r.wall
        for x in r.printed():
            if isinstance(x, dict) and x.get('k') == 'FAIL':
                j.fails.append(x)
    # one violation per (world, call), not one per repetition
    seen = set()
    uniq = []
    for f in j.fails:
        key = (f['id'], f['c'][0]['q'])
        if key not in seen:
            seen.add(key)
            uniq.append(f)
    j.fails = uniq
    v.add_judgement('Trace_Functional', j, {c['id']: {'scope': c['scope'], 'docs': len(c['docs'])} for c in cases},
                    nontrivial=ncalls)
    v.cov['hash_seeds'] = seeds
    v.cov['worlds'] = len(cases)
    v.cov['calls_recorded'] = ncalls
    v.cov['rule'] = ('worlds: adversarial hypernym graphs (two LCS, diamonds, cycles) with words, frames and '
                     'non-reciprocated relations; multi-lexicon query worlds; random documents. Battery: every public '
                     'query / navigation / relation / taxonomy / similarity / IC / search / Morphy / validate / dump / '
                     'export / describe call, executed twice per process in processes with different PYTHONHASHSEED; '
                     'non-trivial = every recorded call')
    v.sample({'world': cases[0]['scope'], 'first_calls': (by_case[cases[0]['id']] or [[0, []]])[0][1][:5]})
    return v.finish()
