"""Driver for the project-index model (spec/WnConfig.tla): histories of public
calls on a fresh WNConfig object; after every call the outcome and the whole
index, projected onto the specification's state, are recorded."""
from __future__ import annotations

import hashlib
import tempfile
from pathlib import Path

import wn
from wn._config import WNConfig

from harness.wnenv import base_dir, main_loop, exc_name

N = '~'


def v(x):
    return N if x is None else x


def project_state(cfg) -> list:
    out = []
    for pid, p in cfg.index.items():
        vs = []
        for ver, d in p['versions'].items():
            kind = 'urls' if 'resource_urls' in d else ('error' if 'error' in d else 'none')
            vs.append({'version': ver, 'kind': kind, 'urls': list(d.get('resource_urls', [])),
                       'error': v(d.get('error')), 'license': v(d.get('license'))})
        out.append({'id': pid, 'type': v(p['type']), 'label': v(p['label']),
                    'language': v(p['language']), 'license': v(p['license']),
                    'error': v(p.get('error')), 'versions': vs})
    return out


def own_cache_name(url: str) -> str:
    # docs/api/wn.rst: cached under a hash of the url -- wn._util.short_hash is blake2b/20
    return hashlib.blake2b(url.encode('utf-8'), digest_size=20).hexdigest()


def classify(e: Exception) -> str:
    name = exc_name(e).split('.')[-1]
    if isinstance(e, wn.ProjectError):
        msg = str(e)
        for k in ('no such project id', 'no versions available', 'no such version'):
            if msg.startswith(k):
                return f'ProjectError:{k}'
        return f'ProjectError:{msg}'
    return name


def toml_of(doc) -> str:
    def q(s):
        return '"' + s.replace('\\', '\\\\').replace('"', '\\"') + '"'
    lines = []
    for e in doc:
        lines.append(f'[{q(e["id"])}]')
        for f in ('type', 'label', 'language', 'license', 'error'):
            if f in e['has']:
                lines.append(f'  {f} = {q(e[f])}')
        for ver in e['versions']:
            lines.append(f'  [{q(e["id"])}.versions.{q(ver["version"])}]')
            for f in ('url', 'error', 'license'):
                if f in ver['has']:
                    lines.append(f'    {f} = {q(ver[f])}')
    return '\n'.join(lines) + '\n'


def dict_of(doc) -> dict:
    out = {}
    for e in doc:
        p = {f: e[f] for f in ('type', 'label', 'language', 'license', 'error') if f in e['has']}
        if e['versions'] or e.get('versions_key', True):
            p['versions'] = {ver['version']: {f: ver[f] for f in ('url', 'error', 'license')
                                              if f in ver['has']} for ver in e['versions']}
        out[e['id']] = p
    return out


def arg(x):
    return None if x == N else x


def info_out(cfg, info: dict, urls_known) -> dict:
    c = info['cache']
    if c is None:
        cache = N
    else:
        c = Path(c)
        hit = [u for u in urls_known if own_cache_name(u) == c.name and c.parent == cfg.downloads_directory]
        cache = hit[0] if hit else '?' + str(c)
    return {'id': info['id'], 'version': info['version'], 'type': v(info['type']),
            'label': v(info['label']), 'language': v(info['language']), 'license': v(info['license']),
            'resource_urls': list(info['resource_urls']), 'cache': cache}


def handle(job):
    d = Path(tempfile.mkdtemp(prefix='cfg', dir=base_dir()))
    cfg = WNConfig()
    cfg.data_directory = d / 'data'
    recs = []
    cached = []
    urls_known = set(job.get('urls', []))
    saved = wn.config
    for k, op in enumerate(job['ops']):
        pre = project_state(cfg)
        rec = {'op': op, 'pre': pre, 'cached': sorted(cached)}
        try:
            kind = op[0]
            if kind == 'add_project':
                cfg.add_project(op[1], type=arg(op[2]), label=arg(op[3]), language=arg(op[4]),
                                license=arg(op[5]), error=arg(op[6]))
                res = ['ok', N]
            elif kind == 'add_version':
                cfg.add_project_version(op[1], op[2], url=arg(op[3]), error=arg(op[4]), license=arg(op[5]))
                res = ['ok', N]
            elif kind == 'update':
                # through update() or, when the call says so, through a TOML file and load_index()
                if len(op) > 2 and op[2] == 'toml':
                    p = d / f'index{k}.toml'
                    p.write_text(toml_of(op[1]), encoding='utf-8')
                    cfg.load_index(p)
                else:
                    cfg.update({'index': dict_of(op[1])})
                res = ['ok', N]
            elif kind == 'touch':
                # what a completed download leaves behind: a file named by the hash of its url
                (cfg.downloads_directory / own_cache_name(op[1])).write_bytes(b'x')
                if op[1] not in cached:
                    cached.append(op[1])
                urls_known.add(op[1])
                res = ['ok', N]
            elif kind == 'info':
                res = ['ok', info_out(cfg, cfg.get_project_info(op[1]), urls_known)]
            elif kind == 'projects':
                # wn.projects() reads the module-level configuration
                wn.config = cfg
                try:
                    res = ['ok', [info_out(cfg, i, urls_known) for i in wn.projects()]]
                finally:
                    wn.config = saved
            else:
                raise AssertionError(kind)
        except AssertionError:
            raise
        except Exception as e:
            res = ['exc', classify(e)]
        for p_ in project_state(cfg):
            for ver in p_['versions']:
                urls_known.update(ver['urls'])
        rec['res'] = res
        rec['post'] = project_state(cfg)
        recs.append(rec)
    return {'recs': recs}


if __name__ == '__main__':
    main_loop(handle, per_job_timeout=120)
