"""C18: the validator.  Model: spec/WnValidate.tla; lexicons with injected
defects are validated by the real code and the reports judged by TLC."""
from __future__ import annotations

import copy
import random

from harness.core import Verdict, tlc_model, tlc_judge, run_driver, seed, NCPU

CODES = ["E101", "W201", "W202", "W203", "E204", "W301", "W302", "W303", "W304", "W305",
         "W306", "W307", "E401", "W402", "W403", "W404", "W501", "W502"]


def clean(k) -> dict:
    """a lexicon on which no check fires"""
    p = f'v{k}'
    L = {'id': p, 'version': '1', 'label': 'clean', 'language': 'en', 'email': 'e@x',
         'license': 'l', 'meta': None,
         'frames': [{'id': f'{p}-sb1', 'subcategorizationFrame': 'f1'}]}
    L['entries'] = [
        {'id': f'{p}-w1', 'meta': None, 'lemma': {'writtenForm': 'cat', 'partOfSpeech': 'n'},
         'forms': [{'id': f'{p}-w1-f1', 'writtenForm': 'cats'}],
         'senses': [{'id': f'{p}-w1-1', 'synset': f'{p}-s1', 'meta': None,
                     'relations': [{'relType': 'antonym', 'target': f'{p}-w2-1', 'meta': None},
                                   {'relType': 'domain_topic', 'target': f'{p}-s3', 'meta': None}]}]},
        {'id': f'{p}-w2', 'meta': None, 'lemma': {'writtenForm': 'dog', 'partOfSpeech': 'n'},
         'senses': [{'id': f'{p}-w2-1', 'synset': f'{p}-s2', 'meta': None,
                     'relations': [{'relType': 'antonym', 'target': f'{p}-w1-1', 'meta': None}]}]},
        {'id': f'{p}-w3', 'meta': None, 'lemma': {'writtenForm': 'animal', 'partOfSpeech': 'n'},
         'senses': [{'id': f'{p}-w3-1', 'synset': f'{p}-s3', 'meta': None}]},
        {'id': f'{p}-w4', 'meta': None, 'lemma': {'writtenForm': 'run', 'partOfSpeech': 'v'},
         'senses': [{'id': f'{p}-w4-1', 'synset': f'{p}-s4', 'meta': None}]},
    ]
    L['synsets'] = [
        {'id': f'{p}-s1', 'ili': 'i1', 'partOfSpeech': 'n', 'meta': None,
         'definitions': [{'text': 'a cat', 'meta': None}],
         'relations': [{'relType': 'hypernym', 'target': f'{p}-s3', 'meta': None},
                       {'relType': 'similar', 'target': f'{p}-s2', 'meta': {'type': 't1'}}],
         'examples': [{'text': 'ex one', 'meta': None}]},
        {'id': f'{p}-s2', 'ili': 'i2', 'partOfSpeech': 'n', 'meta': None,
         'definitions': [{'text': 'a dog', 'meta': None}],
         'relations': [{'relType': 'hypernym', 'target': f'{p}-s3', 'meta': None},
                       {'relType': 'similar', 'target': f'{p}-s1', 'meta': {'type': 't1'}}]},
        {'id': f'{p}-s3', 'ili': 'in', 'partOfSpeech': 'n', 'meta': None,
         'ili_definition': {'text': 'an animal, proposed', 'meta': None},
         'definitions': [{'text': 'an animal', 'meta': None}],
         'relations': [{'relType': 'hyponym', 'target': f'{p}-s1', 'meta': None},
                       {'relType': 'hyponym', 'target': f'{p}-s2', 'meta': None}]},
        {'id': f'{p}-s4', 'ili': '', 'partOfSpeech': 'v', 'meta': None,
         'definitions': [{'text': 'to run', 'meta': None}]},
    ]
    return L


def synset(L, n):
    return L['synsets'][n]


DEFECTS = {}


def defect(f):
    DEFECTS[f.__name__] = f
    return f


@defect
def dup_entry_id(L, r):
    L['entries'][1]['id'] = L['entries'][0]['id']


@defect
def dup_sense_id(L, r):
    L['entries'][2]['senses'][0]['id'] = L['entries'][3]['senses'][0]['id']


@defect
def dup_synset_id(L, r):
    L['synsets'].append(copy.deepcopy(L['synsets'][3]))


@defect
def dup_form_id(L, r):
    L['entries'][1]['forms'] = [{'id': L['entries'][0]['forms'][0]['id'], 'writtenForm': 'dogs'}]


@defect
def dup_frame_id(L, r):
    L['frames'].append({'id': L['frames'][0]['id'], 'subcategorizationFrame': 'f2'})


@defect
def id_clash_across_kinds(L, r):
    L['entries'][3]['id'] = L['synsets'][3]['id']


@defect
def entry_eq_lexicon_id(L, r):
    L['entries'][3]['id'] = L['id']


@defect
def no_senses(L, r):
    L['entries'].append({'id': L['id'] + '-w9', 'meta': None,
                         'lemma': {'writtenForm': 'orphan', 'partOfSpeech': 'n'}})


@defect
def redundant_sense(L, r):
    e = L['entries'][0]
    e['senses'].append({'id': e['id'] + '-9', 'synset': e['senses'][0]['synset'], 'meta': None})


@defect
def redundant_entry(L, r):
    e = L['entries'][0]
    L['entries'].append({'id': L['id'] + '-w8', 'meta': None,
                         'lemma': {'writtenForm': e['lemma']['writtenForm'], 'partOfSpeech': 'n'},
                         'senses': [{'id': L['id'] + '-w8-1', 'synset': e['senses'][0]['synset'],
                                     'meta': None}]})


@defect
def missing_synset(L, r):
    L['entries'][r.randrange(4)]['senses'][0]['synset'] = 'nowhere'


@defect
def empty_synset(L, r):
    L['synsets'].append({'id': L['id'] + '-s9', 'ili': '', 'partOfSpeech': 'n', 'meta': None,
                         'definitions': [{'text': 'unique text 9', 'meta': None}]})


@defect
def repeated_ili(L, r):
    L['synsets'][1]['ili'] = L['synsets'][0]['ili']


@defect
def missing_ili_definition(L, r):
    del L['synsets'][2]['ili_definition']


@defect
def spurious_ili_definition(L, r):
    L['synsets'][0]['ili_definition'] = {'text': 'spurious', 'meta': None}


@defect
def blank_definition(L, r):
    L['synsets'][r.randrange(4)]['definitions'].append({'text': r.choice(['', '   ', '\t\n']), 'meta': None})


@defect
def two_blank_definitions(L, r):
    # blank texts repeat like any other text
    a, b = r.sample(range(4), 2)
    L['synsets'][a]['definitions'].append({'text': r.choice(['', '  ']), 'meta': None})
    L['synsets'][b]['definitions'].append({'text': r.choice(['', '\t']), 'meta': None})


@defect
def two_senses_without_synset(L, r):
    # an empty synset reference is a reference like any other: redundant and missing
    e = L['entries'][r.randrange(4)]
    e['senses'][0]['synset'] = ''
    e['senses'].append({'id': e['id'] + '-8', 'synset': '', 'meta': None})


@defect
def same_entry_id_same_synset(L, r):
    # two entries sharing an id (E101), each with one sense in the same synset: neither
    # entry has a redundant sense
    i, j = r.sample(range(4), 2)
    a, b = L['entries'][i], L['entries'][j]
    b['id'] = a['id']
    b['senses'] = b['senses'][:1]
    a['senses'] = a['senses'][:1]
    b['senses'][0]['synset'] = a['senses'][0]['synset']


@defect
def two_empty_ids(L, r):
    L['entries'][2]['id'] = ''
    L['entries'][3]['id'] = ''


@defect
def blank_preserved_texts(L, r):
    # white space kept by xml:space="preserve" is still blank
    L['synsets'][r.randrange(4)]['definitions'].append(
        {'text': r.choice(['   ', ' \t ']), 'meta': None, '_preserve': True})
    L['synsets'][r.randrange(4)].setdefault('examples', []).append(
        {'text': r.choice(['  ', ' \n ']), 'meta': None, '_preserve': True})


@defect
def two_proposed_and_two_absent_ilis(L, r):
    # "in" and "" are not ILIs: repeating them is no W302
    L['synsets'][0]['ili'] = 'in'
    L['synsets'][0]['ili_definition'] = {'text': 'another proposal', 'meta': None}
    L['synsets'][1]['ili'] = ''


@defect
def instance_hypernym_other_pos(L, r):
    # only plain hypernyms are compared by W501
    L['synsets'][3]['relations'] = [{'relType': 'instance_hypernym', 'target': L['synsets'][2]['id'], 'meta': None}]
    L['synsets'][2].setdefault('relations', []).append(
        {'relType': 'instance_hyponym', 'target': L['synsets'][3]['id'], 'meta': None})


@defect
def hypernym_to_synset_without_pos(L, r):
    # partOfSpeech is optional on <Synset>: a hypernym without one is of another part of speech
    a, b = L['synsets'][0], L['synsets'][1]
    b.pop('partOfSpeech', None)
    a.setdefault('relations', []).append({'relType': 'hypernym', 'target': b['id'], 'meta': None})
    b.setdefault('relations', []).append({'relType': 'hyponym', 'target': a['id'], 'meta': None})


@defect
def blank_example(L, r):
    L['synsets'][r.randrange(4)].setdefault('examples', []).append({'text': r.choice(['', '  ']), 'meta': None})


@defect
def repeated_definition(L, r):
    L['synsets'][1]['definitions'][0]['text'] = L['synsets'][0]['definitions'][0]['text']


@defect
def repeated_definition_same_synset(L, r):
    d = L['synsets'][3]['definitions']
    d.append(copy.deepcopy(d[0]))


@defect
def dangling_synset_relation(L, r):
    L['synsets'][r.randrange(4)].setdefault('relations', []).append(
        {'relType': r.choice(['also', 'similar', 'hyponym']), 'target': 'nowhere', 'meta': None})


@defect
def dangling_hypernym(L, r):
    L['synsets'][3].setdefault('relations', []).append(
        {'relType': 'hypernym', 'target': 'nowhere-h', 'meta': None})


@defect
def dangling_sense_relation(L, r):
    L['entries'][2]['senses'][0].setdefault('relations', []).append(
        {'relType': 'also', 'target': 'nowhere-s', 'meta': None})


@defect
def synset_relation_to_a_sense(L, r):
    # the target exists, but is a sense: not a synset the relation can point to
    L['synsets'][r.randrange(4)].setdefault('relations', []).append(
        {'relType': 'also', 'target': L['entries'][r.randrange(4)]['senses'][0]['id'], 'meta': None})


@defect
def sense_relation_to_an_entry(L, r):
    L['entries'][1]['senses'][0].setdefault('relations', []).append(
        {'relType': 'also', 'target': L['entries'][0]['id'], 'meta': None})


@defect
def invalid_synset_reltype(L, r):
    L['synsets'][3].setdefault('relations', []).append(
        {'relType': 'antonym', 'target': L['synsets'][0]['id'], 'meta': None})


@defect
def invalid_sense_reltype(L, r):
    L['entries'][3]['senses'][0].setdefault('relations', []).append(
        {'relType': 'hypernym', 'target': L['entries'][0]['senses'][0]['id'], 'meta': None})


@defect
def invalid_sense_synset_reltype(L, r):
    L['entries'][3]['senses'][0].setdefault('relations', []).append(
        {'relType': 'antonym', 'target': L['synsets'][0]['id'], 'meta': None})


@defect
def redundant_relation(L, r):
    rels = L['synsets'][0]['relations']
    rels.append(copy.deepcopy(rels[r.randrange(len(rels))]))


@defect
def same_relation_other_dctype(L, r):
    rels = L['synsets'][0]['relations']
    rels.append({'relType': 'similar', 'target': rels[1]['target'], 'meta': {'type': 't2'}})
    L['synsets'][1]['relations'].append({'relType': 'similar', 'target': L['synsets'][0]['id'],
                                         'meta': {'type': 't2'}})


@defect
def redundant_sense_relation(L, r):
    rels = L['entries'][0]['senses'][0]['relations']
    rels.append(copy.deepcopy(rels[0]))


@defect
def missing_reverse(L, r):
    L['synsets'][2]['relations'].pop(r.randrange(2))


@defect
def missing_reverse_sense(L, r):
    L['entries'][1]['senses'][0]['relations'] = []


@defect
def hypernym_wrong_pos(L, r):
    L['synsets'][3].setdefault('relations', []).append(
        {'relType': 'hypernym', 'target': L['synsets'][2]['id'], 'meta': None})
    L['synsets'][2]['relations'].append({'relType': 'hyponym', 'target': L['synsets'][3]['id'],
                                         'meta': None})


@defect
def self_loop_synset(L, r):
    L['synsets'][3].setdefault('relations', []).append(
        {'relType': r.choice(['also', 'similar', 'hypernym']), 'target': L['synsets'][3]['id'], 'meta': None})


@defect
def self_loop_sense(L, r):
    s = L['entries'][2]['senses'][0]
    s.setdefault('relations', []).append({'relType': 'also', 'target': s['id'], 'meta': None})


@defect
def synset_without_pos(L, r):
    del L['synsets'][3]['partOfSpeech']


def selects(rng, thorough):
    out = [['E', 'W'], ['E'], ['W'], CODES]
    for _ in range(6 if thorough else 3):
        out.append(sorted(rng.sample(CODES, rng.randint(1, 5))))
    out.append(['W5'])          # neither a code nor a category: nothing selected
    out.append(['E', 'W501', 'X'])
    return out


def c18(tier: str) -> int:
    v = Verdict('C18', tier)
    thorough = tier == 'thorough'
    v.assumptions = [
        'lexicons reach validate() through wn.lmf.load (whitespace-normalised text)',
        'W203 and W404 admit a range (see WnValidate: same-entry repetitions; reverse of a relation '
        'to a missing target), every other check must list exactly the model set',
        'context fields are checked for the relation checks; the misspelt key of W304 is not compared']
    v.add_model('MC_Validate (relation tables, small lexicons)', tlc_model('MC_Validate'))
    rng = random.Random(seed() + 18)
    names = sorted(DEFECTS)
    cases = []
    k = 0

    def add(defs):
        nonlocal k
        k += 1
        L = clean(k)
        r = random.Random(rng.random())
        for d in defs:
            try:
                DEFECTS[d](L, r)
            except (KeyError, IndexError):
                pass
        cases.append({'id': k, 'lex': L, 'defects': list(defs), 'selects': selects(rng, thorough),
                      'cli': ([['E', 'W'], sorted(rng.sample(CODES, 3))] if (thorough or k % 6 == 0) else []),
                      'version': rng.choice(['1.0', '1.1', '1.3']) if 'dup_form_id' not in defs
                      and 'dup_frame_id' not in defs else '1.1'})
    add([])
    for d in names:
        for _ in range(3 if thorough else 2):
            add([d])
    pairs = [(a, b) for a in names for b in names if a < b]
    for a, b in (pairs if thorough else rng.sample(pairs, 170)):
        add([a, b])
    for _ in range(600 if thorough else 60):
        add(rng.sample(names, rng.randint(3, 6)))
    per = max(1, len(cases) // (NCPU * 2))
    jobs = [{'cases': cases[j:j + per]} for j in range(0, len(cases), per)]
    res = run_driver('drv_validate.py', jobs, timeout=3000)
    recs = []
    for j, r in zip(jobs, res):
        if r is None or 'obs' not in r:
            recs.extend({'id': c['id'], 'timeout': True} for c in j['cases'])
        else:
            recs.extend(r['obs'])
    jd = tlc_judge('Judge_C18', recs, cfg='Judge.cfg', shards=NCPU)
    v.add_judgement('Judge_C18', jd, {x['id']: x for x in recs},
                    nontrivial=sum(1 for c in cases if c['defects']))
    v.cov['defect_kinds'] = len(names)
    v.cov['reports'] = sum(len(x.get('runs', [])) for x in recs)
    v.cov['rule'] = ('a clean lexicon + every single defect kind (36 kinds: duplicate ids of every kind, '
                     'dangling references incl. a hypernym to a missing synset, empty synset, ILI problems, '
                     'blank / repeated texts, self-loops, redundant / unreciprocated / mistyped relations, '
                     'part-of-speech clashes) + pairs + random combinations x select arguments (categories, '
                     'codes, subsets, junk); non-trivial = at least one defect injected')
    for x in recs[40:42]:
        v.sample({'defects': x.get('defects'), 'report': [[c[0], c[1]] for c in (x.get('runs') or [[0, 0, []]])[0][2] if c[1]],
                  'add': x.get('add')})
    return v.finish()
