"""Observer for C01 / C03: everything the public query API reports about the
lexicons of a Wordnet, as tables with fixed columns ("~" = None)."""
from __future__ import annotations

import json

import wn


def _a(v):
    return '~' if v is None or v == '' else v


def _meta(m):
    if not m:
        return '~'
    return json.dumps({k: str(v) for k, v in m.items()}, sort_keys=True, ensure_ascii=False)


def observe_api(scope: str) -> dict:
    w = wn.Wordnet(scope, expand='')
    T = {k: [] for k in ('alex', 'aword', 'aform', 'atag', 'apron', 'asense', 'asex', 'acount',
                         'aframe', 'asyn', 'ayex')}
    for lx in w.lexicons():
        T['alex'].append([lx.specifier(), lx.id, lx.version, lx.label, lx.language, lx.email,
                          lx.license, _a(lx.url), _a(lx.citation), _a(lx.logo), _meta(lx.metadata())])
    counters = {}
    for word in w.words():
        o = word.lexicon().specifier()
        ei = counters.get(o, 0)
        counters[o] = ei + 1
        T['aword'].append([o, ei, word.id, word.pos, _meta(word.metadata())])
        forms = word.forms()
        assert str(word.lemma()) == str(forms[0])
        for fi, f in enumerate(forms):
            T['aform'].append([o, word.id, fi, str(f), _a(f.id), _a(f.script)])
            for k, t in enumerate(f.tags()):
                T['atag'].append([o, word.id, fi, k, t.tag, t.category])
            for k, p in enumerate(f.pronunciations()):
                T['apron'].append([o, word.id, fi, k, p.value, _a(p.variety), _a(p.notation),
                                   bool(p.phonemic), _a(p.audio)])
        for si, s in enumerate(word.senses()):
            T['asense'].append([o, word.id, si, s.lexicon().specifier(), s.id, s.synset().id,
                                bool(s.lexicalized()), _a(s.adjposition()), _meta(s.metadata())])
            for k, x in enumerate(s.examples()):
                T['asex'].append([o, s.id, k, x])
            for k, c in enumerate(s.counts()):
                T['acount'].append([o, s.id, k, int(c), _meta(c.metadata())])
            # (the order of the frames of a sense is nowhere specified: sorted)
            for fr in sorted(s.frames()):
                T['aframe'].append([o, s.id, fr])
    ycount = {}
    for y in w.synsets():
        o = y.lexicon().specifier()
        yi = ycount.get(o, 0)
        ycount[o] = yi + 1
        ili = y.ili
        imeta = '~'
        if ili is None:
            iv, idef = '', '~'
        elif ili.id:
            iv, idef = ili.id, '~'
        else:
            iv, idef = 'in', _a(ili.definition())
            imeta = _meta(ili.metadata())
        T['asyn'].append([o, yi, y.id, _a(y.pos), iv, bool(y.lexicalized()), _a(y.lexfile()),
                          _meta(y.metadata()), _a(y.definition()), [s.id for s in y.senses()], idef,
                          [str(l) for l in y.lemmas()], imeta])
        for k, x in enumerate(y.examples()):
            T['ayex'].append([o, y.id, k, x])
    return T
