"""C08: lexicon specifiers and language codes.  Model: spec/WnSelect.tla with the
bounded instance MC_Select; the databases TLC explores (every order of addition)
are rebuilt with the real code, every specifier x language is asked, and the
answers are judged by TLC (Judge_C08)."""
from __future__ import annotations

import random

from harness.core import (Verdict, tlc_model, tlc_judge, run_driver, run_tlc, seed, NCPU,
                          MachineryError)

ATOMS = ["*", "a", "ab", "zz", "b-c", "a:1", "a:2", "a:*", "*:1", "*:2", "a*", "a*:*",
         "*:1.0*", "*b*", "b-*:*", "*-*", "a:1.0-rc.1", "ab:1.0+b", "a:", ":1", "*:*", "a:1*", "**"]
# SQLite's other glob characters (not documented for specifiers, but accepted)
ATOMS += ["a?", "a?:1", "?:1", "a:?", "a[b]:1", "a[b]:*", "[ab]*:*", "a:[12]", "a:[^1]", "a?:*", "??:1.0+b",
          "a:1.0?rc.1", "b?c:2", "[^a]*:*"]
LISTS = ["a:1 ab", "a ab:*", "zz a", "a:* a", "*:2 zz", " a  ab ", "a b-c zz", "ab a*",
         "a:2 a:1 a", "zz yy", " ", "* zz", "b-c a", "a:1.0-rc.1 ab:1", "*:1 *:2", "ab:* a",
         "a:1 a?:1", "a:? ab", "zz a[b]:*"]
LANGS = ["~", "en", "fr-CA", "de"]      # (a tag with an upper-case subtag: stored and compared as given)
REMOVES = ["a", "ab", "a:*", "*:1", "a ab:*", "zz", "*", "a:1 ab", "b-*:*", "ab a*"]


def c08(tier: str) -> int:
    v = Verdict('C08', tier)
    thorough = tier == 'thorough'
    v.assumptions = ['"?" and "[...]" patterns (SQLite GLOB, undocumented for specifiers) are asked too; a pattern '
                     'without a star selects one lexicon, the most recently added match, as the code does; '
                     'character ranges are not generated',
                     'every id has one language, so "most recent" and "language" do not interact',
                     'results are compared as sets of id:version']
    v.add_model('MC_Select (orders of addition x specifiers x languages)',
                tlc_model('MC_Select', 'MC_Select4.cfg' if thorough else 'MC_Select.cfg', timeout=7200))
    r = run_tlc('MC_Select', 'MC_Select_emit4.cfg' if thorough else 'MC_Select_emit.cfg', workers=1)
    dbs = [d for d in r.printed() if isinstance(d, list)]
    if not r.ok or len(dbs) < 100:
        raise MachineryError('TLC did not emit the databases:\n' + r.out[-1500:])
    rng = random.Random(seed() + 8)
    cases = []
    for k, db in enumerate(dbs):
        args = ATOMS + LISTS if (thorough or k % 4 == 0) else rng.sample(ATOMS, 9) + rng.sample(LISTS, 6)
        qs = [[a, g] for a in args for g in (LANGS if (thorough or k % 3 == 0) else ['~', rng.choice(LANGS[1:])])]
        cases.append({'id': k + 1, 'db': db, 'queries': qs,
                      'removes': REMOVES if (thorough or k % 5 == 0) else rng.sample(REMOVES, 3)})
    per = max(1, len(cases) // (NCPU * 2))
    jobs = [{'cases': cases[k:k + per]} for k in range(0, len(cases), per)]
    res = run_driver('drv_select.py', jobs, timeout=3000)
    recs = []
    for j, rr in zip(jobs, res):
        if rr is None or 'obs' not in rr:
            recs.extend({'id': c['id'], 'timeout': True} for c in j['cases'])
        else:
            recs.extend(rr['obs'])
    jd = tlc_judge('Judge_C08', recs, cfg='Judge.cfg', shards=NCPU)
    v.add_judgement('Judge_C08', jd, {x['id']: x for x in recs},
                    nontrivial=sum(1 for c in cases if len(c['db']) >= 2))
    v.cov['queries'] = sum(len(c['queries']) for c in cases)
    v.cov['removes'] = sum(len(c['removes']) for c in cases)
    v.cov['rule'] = ('every sequence (order of addition) of up to 3 (4 thorough) of six lexicons with shared ids, '
                     'prefix ids, versions with dots/plus/hyphen, two languages - the states of MC_Select emitted '
                     'by TLC - x specifier arguments (single, lists, non-matching, stray blanks) x languages; '
                     'non-trivial = at least two lexicons installed')
    for x in recs[100:102]:
        v.sample({'db': x.get('db'), 'answers': (x.get('q') or [])[:5]})
    return v.finish()
