"""C17 (Morphy) and C09 (word-form search)."""
from __future__ import annotations

import random

from harness.core import Verdict, tlc_model, tlc_judge, run_driver, seed, NCPU

NOUN_RULES = [("s", ""), ("ces", "x"), ("ses", "s"), ("ves", "f"), ("ives", "ife"), ("xes", "x"),
              ("xes", "xis"), ("zes", "z"), ("ches", "ch"), ("shes", "sh"), ("men", "man"), ("ies", "y")]
VERB_RULES = [("s", ""), ("ies", "y"), ("es", "e"), ("es", ""), ("ed", "e"), ("ed", ""),
              ("ing", "e"), ("ing", "")]
ADJ_RULES = [("er", ""), ("est", ""), ("er", "e"), ("est", "e")]
RULES = {'n': NOUN_RULES, 'v': VERB_RULES, 'a': ADJ_RULES, 's': ADJ_RULES, 'r': []}

POOL = [
    ['n', 'ax', []], ['n', 'axe', []], ['n', 'axis', ['axes']], ['n', 'wolf', ['wolves']],
    ['n', 'wolve', []], ['n', 'knife', []], ['n', 'man', ['men']], ['n', 'woman', []],
    ['n', 'men', []], ['n', 'box', []], ['n', 'buzz', []], ['n', 'church', []], ['n', 'dish', []],
    ['n', 'fly', []], ['n', 'cat', ['cats', 'kitties']], ['n', 's', []], ['n', 'es', []],
    ['n', 'goose', ['geese']], ['n', 'ox', ['oxen']], ['n', 'bus', []], ['n', 'vertex', ['vertices']],
    ['n', 'ice cream', []], ['n', 'fish', ['fish']],
    ['v', 'bake', ['baked', 'baking']], ['v', 'bak', []], ['v', 'try', []], ['v', 'fly', ['flew']],
    ['v', 'run', ['ran', 'running']], ['v', 'be', ['is', 'was', 'men']], ['v', 'ed', []],
    ['v', 'ing', []], ['v', 'go', ['went', 'geese']], ['v', 'axe', ['axes']], ['v', 'buzz', []],
    ['a', 'big', ['bigger', 'biggest']], ['a', 'nice', []], ['a', 'late', []], ['a', 'er', []],
    ['a', 'lat', []], ['s', 'big', []], ['s', 'nic', []], ['s', 'nice', ['nicer']],
    ['r', 'well', ['better']], ['r', 'fast', []], ['x', 'fast', ['faster']], ['u', 'bakes', []],
    # a query that is the lemma of one word and a further form of another word of the same pos
    ['v', 'saw', []], ['v', 'see', ['saw', 'seen']], ['a', 'better', []], ['a', 'good', ['better', 'best']],
    ['n', 'geese', []], ['n', 'axes', []], ['r', 'better', []], ['v', 'found', ['founded']],
    ['v', 'find', ['found']], ['n', 'lives', []], ['n', 'life', ['lives']],
    # one further form listed by two words of the same part of speech
    ['n', 'staff', ['staves']], ['n', 'stave', ['staves']], ['v', 'hang', ['hung']], ['v', 'hing', ['hung']],
]


def queries_for(words, rng, n):
    qs = set()
    for pos, lemma, forms in words:
        qs.add(lemma)
        qs.update(forms)
        for p, rules in RULES.items():
            for suf, repl in rules:
                if lemma.endswith(repl):
                    qs.add(lemma[:len(lemma) - len(repl)] + suf)
                qs.add(lemma + suf)
    qs.update(['s', 'es', 'ing', 'men', 'er', 'est', 'ed', 'ies', 'xes', 'xyz', '', 'Cats', 'ices'])
    stored = sorted({w[1] for w in words} | {f for w in words for f in w[2]})
    rest = sorted(qs - set(stored))
    if len(rest) + len(stored) > n:
        rest = rng.sample(rest, max(0, n - len(stored)))
    qs = stored + rest
    poses = ['~', 'n', 'v', 'a', 's', 'r', 'x']
    return [[q, p] for q in qs for p in (poses if rng.random() < 0.35 else
                                         ['~', rng.choice(poses[1:])])]


def c17(tier: str) -> int:
    v = Verdict('C17', tier)
    thorough = tier == 'thorough'
    v.assumptions = ['forms carry no script (Form equality also compares scripts; scripts are outside the property)',
                     'the consumption of the lemmatizer by Wordnet searches is checked under C09']
    v.add_model('MC_Morphy (lexicons of <=3 words of a pool x queries x parts of speech)',
                tlc_model('MC_Morphy'))
    rng = random.Random(seed() + 17)
    cases = []
    n = 400 if thorough else 90
    for k in range(n):
        words = rng.sample(POOL, rng.randint(3, 14))
        cases.append({'id': k + 1, 'words': words,
                      'queries': queries_for(words, rng, 200 if thorough else 45)})
        if k % 3 == 2:
            # every third lexicon: some further forms come from an extension of the lexicon
            r2 = random.Random(seed() * 1000 + k)
            cases[-1]['xforms'] = [[j, [f for f in w_[2] if r2.random() < 0.6]]
                                   for j, w_ in enumerate(words) if w_[2] and r2.random() < 0.6]
            cases[-1]['xforms'] = [x for x in cases[-1]['xforms'] if x[1]]
    cases.append({'id': n + 1, 'words': POOL, 'queries': queries_for(POOL, rng, 10000 if thorough else 250)})
    per = max(1, len(cases) // (NCPU * 2))
    jobs = [{'cases': cases[k:k + per]} for k in range(0, len(cases), per)]
    res = run_driver('drv_words.py', jobs, timeout=3000)
    recs = []
    for j, r in zip(jobs, res):
        if r is None or 'obs' not in r:
            recs.extend({'id': c['id'], 'timeout': True} for c in j['cases'])
        else:
            recs.extend(r['obs'])
    jd = tlc_judge('Judge_C17', recs, cfg='Judge.cfg', shards=NCPU)
    v.add_judgement('Judge_C17', jd, {x['id']: x for x in recs}, nontrivial=len(cases))
    v.cov['calls'] = sum(len(x.get('calls', [])) for x in recs)
    v.cov['rule'] = ('random lexicons over a pool of 61 words chosen so that each of the 24 rules fires and '
                     'collides (ax/axe/axis, wolf/wolve, man/men, lemmas equal to a bare suffix, a/s twins, '
                     'irregular forms shared between words and parts of speech) x queries (every lemma with every '
                     'rule suffix attached, stored forms, bare suffixes, unrelated strings) x pos in '
                     '{None,n,v,a,s,r,x} x {initialised, uninitialised}; every lexicon is non-trivial')
    for x in recs[:2]:
        v.sample({'words': x.get('words'), 'calls': (x.get('calls') or [])[:4]})
    return v.finish()


FORMS = ['cat', 'Cat', 'CAT', 'cát', 'cats', 'Cats', 'résumé', 'resume', 'Resume', 'ice cream',
         'Ice Cream', '猫', 'ﬁsh', 'fish', 'Fishes', 'bake', 'baked', 'bakes', 'es', 's', 'Ångström',
         'angstrom', 'naïve', 'naive', 'NAÏVE',
         # forms stored in decomposed spelling (not NFC) next to their composed twins, and a
         # character that NFC itself decomposes: a form is searched as it is written
         'cafe\u0301', 'caf\u00e9', 'A\u030angstro\u0308m', '\u0958a']
NEAR = ['ca', 'catt', 'cat ', 'ｃａｔ', 'résume', '!Cat', '!fish', 'icecream', 'ice  cream', '', 'Ⅳ']


def search_case(k, rng, nq):
    nwords = rng.randint(2, 7)
    words = []
    synpos = {}
    # identifiers are written 'lexicon|id'; in some worlds L and M use the very same ids
    # (two lexicons with shared ids in one scope: every result is still one entity)
    shared = rng.random() < 0.35
    for j in range(nwords):
        lex = rng.choice(['L', 'L', 'L', 'M'] if not shared else ['L', 'M'])
        pfx = f'{lex}|' + ('' if shared else f'{lex}-')
        jj = j // 2 if shared else j
        pos = rng.choice(['n', 'n', 'v', 'a', 's'])
        lemma = rng.choice(FORMS)
        forms = []
        for f in rng.sample(FORMS, rng.choice([0, 0, 1, 2])):
            if f != lemma and f not in forms:
                forms.append(f)
        senses = []
        for t in range(rng.choice([0, 1, 1, 2])):
            ssid = f'{pfx}ss{rng.randint(1, 4)}'
            if ssid not in [x[1] for x in senses]:
                senses.append([f'{pfx}w{jj}-{t}', ssid])
                synpos.setdefault(ssid, rng.choice([pos, pos, 'n', 's']))
        if any(w_[0] == f'{pfx}w{jj}' for w_ in words):
            continue
        words.append([f'{pfx}w{jj}', lex, pos, lemma, forms, senses])
    if shared:
        # M repeats most words of L: same id, part of speech and lemma (another version, say)
        for w in [w for w in words if w[1] == 'L']:
            if rng.random() < 0.7:
                mid = 'M|' + w[0].split('|', 1)[1]
                words[:] = [x for x in words if x[0] != mid]
                ms = [['M|' + a.split('|', 1)[1], 'M|' + b.split('|', 1)[1]] for a, b in w[5]]
                for _, b in ms:
                    synpos.setdefault(b, synpos.get('L|' + b.split('|', 1)[1], w[2]))
                words.append([mid, 'M', w[2], w[3], list(w[4][:1]), ms])
    scope = rng.choice([['L'], ['L'], ['L', 'M'], ['M']] if not shared else [['L', 'M'], ['L', 'M'], ['L']])
    # an extension X of L that adds further forms to L's entries (X is then always
    # selected together with L: forms of an unselected extension are C04's finding)
    extforms = {}
    extsenses = {}
    if rng.random() < 0.45:
        for w in words:
            if w[1] == 'L' and rng.random() < 0.7:
                extforms[w[0]] = [f for f in rng.sample(FORMS, rng.choice([1, 1, 2]))
                                  if f != w[3] and f not in w[4]]
        if extforms:
            # ... or not selected at all: then the forms a word has are those Word.forms() reports
            # for it in that Wordnet (whether those should include X's is C04's finding, not C09's)
            scope = rng.choice([['L', 'X'], ['L', 'X'], ['L', 'X', 'M'], ['L'], ['L', 'M'], ['X'], ['X', 'M']])
    if not any(w[1] in scope for w in words) and 'X' not in scope:
        words[0][1] = scope[0]
        words[0][0] = f'{scope[0]}|{scope[0]}-w0'
        words[0][5] = [[f'{scope[0]}|{scope[0]}-w0-{t}', f'{scope[0]}|{scope[0]}-moved-' + s.split('|', 1)[1]]
                       for t, (_, s) in enumerate(words[0][5])]
        for _, s in words[0][5]:
            synpos.setdefault(s, words[0][2])
    # a synset belongs to the lexicon of its id prefix; senses only reference own-lexicon synsets
    qs = []
    pool = FORMS + NEAR
    for _ in range(nq):
        qs.append([rng.choice(['words', 'senses', 'synsets']), rng.choice(pool),
                   rng.choice(['~', '~', 'n', 'v', 'a', 's', 'x']), rng.random() < 0.6,
                   rng.random() < 0.6, rng.choice(['none', 'none', 'custom', 'morphy_u', 'morphy_i'])])
    # make sure every stored lemma is asked for exactly, without a lemmatizer
    for w in words:
        qs.append(['words', w[3], '~', rng.random() < 0.5, rng.random() < 0.5, 'none'])
    # inflected / re-cased variants of stored forms through the lemmatizers, so that
    # some candidate groups match exactly while others match only after normalisation
    stored = sorted({w[3] for w in words} | {f for w in words for f in w[4]})
    for f in stored:
        for q in {f, f.capitalize(), f + 's', f.capitalize() + 's', f.upper(), '!' + f.capitalize()}:
            for lem in ('custom', 'morphy_u', 'morphy_i'):
                if rng.random() < 0.5:
                    qs.append([rng.choice(['words', 'senses', 'synsets']), q,
                               rng.choice(['~', '~', 'n', 'v']), True, rng.random() < 0.7, lem])
    if extforms:
        # X also hangs new senses on words of L: into a synset of L or into one of its own
        lsyn = sorted({ssid for w in words if w[1] == 'L' for _, ssid in w[5]})
        for w in words:
            if w[1] == 'L' and w[0] in extforms and rng.random() < 0.6:
                r_ = w[0].split('|', 1)[1]
                tgt = rng.choice(lsyn + ['X|xs1', 'X|xs2'])
                synpos.setdefault(tgt, rng.choice([w[2], 'n']))
                extsenses[w[0]] = [[f'X|x-{r_}-ns', tgt]]
    return {'id': k, 'words': words, 'synpos': sorted(synpos.items()), 'scope': scope, 'queries': qs,
            'extforms': extforms, 'extsenses': extsenses}


def c09(tier: str) -> int:
    v = Verdict('C09', tier)
    thorough = tier == 'thorough'
    v.assumptions = [
        'the normalisation table given to TLC is computed by the harness from the documented rule '
        '(lower-case, NFKD, combining marks removed), independently of wn._util.normalize_form',
        'the candidates a lemmatizer proposes are logged by calling it directly; TLC checks what the '
        'search does with them (Morphy itself is C17)',
        'when an installed extension is not selected, the forms of a base word are taken to be those '
        'Word.forms() reports in that same Wordnet (the search has to agree with them; whether they '
        'should include the unselected extension\'s forms is C04\'s known finding)']
    v.add_model('MC_Search (lexicons of <=3 words x queries x pos x normalizer x search_all_forms x lemmatizer)',
                tlc_model('MC_Search'))
    rng = random.Random(seed() + 9)
    n = 1500 if thorough else 200
    cases = [search_case(k + 1, rng, 120 if thorough else 60) for k in range(n)]
    per = max(1, len(cases) // (NCPU * 2))
    jobs = [{'mode': 'search', 'cases': cases[k:k + per]} for k in range(0, len(cases), per)]
    res = run_driver('drv_words.py', jobs, timeout=3000)
    recs = []
    for j, r in zip(jobs, res):
        if r is None or 'obs' not in r:
            recs.extend({'id': c['id'], 'timeout': True} for c in j['cases'])
        else:
            recs.extend(r['obs'])
    jd = tlc_judge('Judge_C09', recs, cfg='Judge.cfg', shards=NCPU)
    ncalls = sum(len(x.get('calls', [])) for x in recs)
    nonempty = sum(1 for x in recs for c in x.get('calls', []) if c[8])
    v.add_judgement('Judge_C09', jd, {x['id']: x for x in recs}, nontrivial=nonempty)
    v.cov['calls'] = ncalls
    v.cov['calls_with_nonempty_result'] = nonempty
    v.cov['rule'] = ('random lexicons (2-7 words in two lexicons, forms differing only in case / diacritics / '
                     'compatibility characters, forms shared across words and parts of speech, non-lemma forms, '
                     'multi-word and non-Latin forms, synsets whose pos differs from the word) x queries (stored '
                     'forms, variants, near misses) x pos x normalizer x search_all_forms x lemmatizer in '
                     '{none, custom, Morphy uninitialised, Morphy initialised} x words/senses/synsets; '
                     'non-trivial = calls with a non-empty result')
    for x in recs[:2]:
        v.sample({'words': x.get('words'), 'scope': x.get('scope'), 'calls': (x.get('calls') or [])[:3]})
    return v.finish()
