"""Shared machinery: scratch space, TLC driver, verdicts, evidence, known findings.

Every check computes its verdict with TLC:

  * ``tlc_model``  runs a bounded instance (``MC_*.cfg``) of a specification and
    returns states / transitions / invariant violations / action coverage;
  * ``tlc_judge``  feeds records recorded from the real code (ND-JSON) to a
    ``Judge_*`` / ``Trace_*`` module.  The module evaluates, for every record,
    the admissibility predicate written in TLA+ and prints one JSON line per
    record that it cannot explain (with the names of the failing clauses) or
    that only a *deviation* operator explains (known findings).

Exit codes of a check: 0 = held, 1 = VIOLATION, 2 = machinery failure.
"""
from __future__ import annotations

import atexit
import json
import os
import re
import shutil
import subprocess
import sys
import tempfile
import time
from concurrent.futures import ThreadPoolExecutor
from pathlib import Path

VERIF = Path(__file__).resolve().parent.parent
SPEC = VERIF / 'spec'
OUT = VERIF / 'out'
EVID = VERIF / 'evidence'
REPO = Path(os.environ.get('WN_REPO', '/repo'))
PY = os.environ.get('WN_PYTHON', '/venv/bin/python')
TLA_CP = ('/opt/veriftools/tla/tla2tools.jar:'
          '/opt/veriftools/tla/CommunityModules-deps.jar')
NCPU = min(16, os.cpu_count() or 4)

_scratch: Path | None = None


def scratch() -> Path:
    """A private scratch directory, removed at exit."""
    global _scratch
    if _scratch is None:
        base = os.environ.get('WN_VERIF_SCRATCH') or tempfile.gettempdir()
        _scratch = Path(tempfile.mkdtemp(prefix='wnverif-', dir=base))
        atexit.register(shutil.rmtree, _scratch, ignore_errors=True)
    return _scratch


def seed() -> int:
    try:
        return int(os.environ.get('VERIF_SEED', '0'))
    except ValueError:
        return 0


class MachineryError(Exception):
    pass


# --------------------------------------------------------------------------
# TLC
# --------------------------------------------------------------------------

_RE_STATES = re.compile(r'(\d+) states generated, (\d+) distinct states found')
_RE_INIT = re.compile(r'Finished computing initial states: (\d+) distinct state')
_RE_DEPTH = re.compile(r'The depth of the complete state graph search is (\d+)')
_RE_COV = re.compile(r'^<(\w+) line (\d+), col \d+ to line \d+, col \d+ of module (\w+)>: (\d+):(\d+)')


class TLCResult:
    def __init__(self, rc, out, wall):
        self.rc = rc
        self.out = out
        self.wall = wall
        m = None
        for m in _RE_STATES.finditer(out):
            pass
        self.generated = int(m.group(1)) if m else 0
        self.distinct = int(m.group(2)) if m else 0
        mi = _RE_INIT.search(out)
        self.init = int(mi.group(1)) if mi else 0
        md = _RE_DEPTH.search(out)
        self.depth = int(md.group(1)) if md else 0
        self.transitions = max(self.generated - self.init, 0)
        self.ok = ('Model checking completed. No error has been found.' in out
                   or 'Finished in' in out and 'Error:' not in out and rc == 0)
        self.violated = re.findall(r'Error: Invariant (\w+) is violated', out)
        self.violated += re.findall(r'Error: Action property (\w+) is violated', out)
        if 'Temporal properties were violated' in out:
            self.violated.append('temporal')
        self.coverage = {}
        for line in out.splitlines():
            mc = _RE_COV.match(line)
            if mc:
                self.coverage[mc.group(1)] = (int(mc.group(4)), int(mc.group(5)))

    def printed(self):
        """Values printed with PrintT(ToJson(..)): one JSON string literal per line."""
        res = []
        for line in self.out.splitlines():
            line = line.strip()
            if line.startswith('"') and line.endswith('"') and len(line) > 1:
                try:
                    inner = json.loads(line)
                except ValueError:
                    continue
                try:
                    res.append(json.loads(inner))
                except ValueError:
                    res.append(inner)
        return res


def run_tlc(module: str, cfg: str | None = None, *, workers: int | str = 1,
            env: dict | None = None, extra: list | None = None,
            timeout: int = 3600, simulate: str | None = None,
            coverage: bool = False, heap: str = '4g') -> TLCResult:
    """Run TLC on spec/<module>.tla with spec/<cfg>."""
    sc = scratch()
    meta = Path(tempfile.mkdtemp(prefix='tlc-', dir=sc))
    gc = '-XX:+UseSerialGC' if str(workers) == '1' else '-XX:+UseParallelGC'
    cmd = ['java', gc, f'-Xmx{heap}',
           f'-Djava.io.tmpdir={meta}', '-Dfile.encoding=UTF-8',
           '-cp', TLA_CP, 'tlc2.TLC',
           '-workers', str(workers), '-metadir', str(meta / 'md'),
           '-noGenerateSpecTE', '-config', str(SPEC / (cfg or module + '.cfg'))]
    if coverage:
        cmd += ['-coverage', '1']
    if simulate:
        cmd += ['-simulate', simulate]
    cmd += list(extra or [])
    cmd.append(str(SPEC / (module + '.tla')))
    e = dict(os.environ)
    e.pop('JAVA_TOOL_OPTIONS', None)
    if env:
        e.update({k: str(v) for k, v in env.items()})
    t0 = time.time()
    try:
        p = subprocess.run(cmd, cwd=SPEC, env=e, capture_output=True,
                           timeout=timeout)
        out = p.stdout.decode('utf-8', 'replace') + p.stderr.decode('utf-8', 'replace')
        rc = p.returncode
    except subprocess.TimeoutExpired as ex:
        out = (ex.stdout or b'').decode('utf-8', 'replace') + '\nTLC TIMEOUT'
        rc = 124
    shutil.rmtree(meta, ignore_errors=True)
    return TLCResult(rc, out, time.time() - t0)


def tlc_model(module: str, cfg: str | None = None, **kw) -> TLCResult:
    """Model-check a bounded instance; machinery error on anything but a
    clean verdict or a reported property violation."""
    kw.setdefault('workers', NCPU)
    r = run_tlc(module, cfg, **kw)
    if not r.ok and not r.violated:
        raise MachineryError(f'TLC failed on {module}/{cfg}:\n{r.out[-3000:]}')
    return r


def run_apalache(module: str, init: str, inv: str, length: int, timeout: int = 1200) -> dict:
    """apalache-mc check on spec/<module>.tla; ok iff it reports no error"""
    sc = scratch()
    out = Path(tempfile.mkdtemp(prefix='apa-', dir=sc))
    t0 = time.time()
    try:
        p = subprocess.run(['apalache-mc', 'check', f'--init={init}', f'--inv={inv}', f'--length={length}',
                            f'--out-dir={out}', str(SPEC / f'{module}.tla')],
                           capture_output=True, text=True, timeout=timeout, cwd=str(out))
        text = p.stdout + p.stderr
    except (subprocess.TimeoutExpired, FileNotFoundError) as e:
        return {'ok': False, 'violated': False, 'wall': time.time() - t0, 'out': repr(e)}
    return {'ok': 'EXITCODE: OK' in text, 'violated': 'violat' in text.lower() and 'EXITCODE: OK' not in text,
            'wall': time.time() - t0, 'out': text[-3000:]}


class Judgement:
    def __init__(self):
        self.records = 0          # records given to TLC
        self.judged = 0           # records TLC evaluated (distinct initial states)
        self.fails = []           # [{'id':..., 'clauses': [...], ...}]
        self.devs = []            # [{'id':..., 'dev': [...]}]
        self.wall = 0.0
        self.infos = []

    def merge(self, o):
        self.records += o.records
        self.judged += o.judged
        self.fails += o.fails
        self.devs += o.devs
        self.wall += o.wall
        self.infos += o.infos


def _judge_shard(module, cfg, path, n, env, timeout):
    e = {'TRACE_FILE': str(path)}
    e.update(env or {})
    r = run_tlc(module, cfg, workers=1, env=e, timeout=timeout)
    if not r.ok:
        # a JVM that could not start on an overloaded machine says nothing about the
        # records: judge the shard once more before giving up
        time.sleep(2)
        r = run_tlc(module, cfg, workers=1, env=e, timeout=timeout)
    j = Judgement()
    j.records = n
    j.wall = r.wall
    if not r.ok:
        raise MachineryError(f'TLC judge {module} failed (rc={r.rc}):\n{r.out[-4000:]}')
    j.judged = r.init if r.init else r.distinct
    for v in r.printed():
        if isinstance(v, dict) and v.get('k') == 'FAIL':
            j.fails.append(v)
        elif isinstance(v, dict) and v.get('k') == 'DEV':
            j.devs.append(v)
        elif isinstance(v, dict) and v.get('k') == 'INFO':
            j.infos.append(v)
    return j


def tlc_judge(module: str, records: list, *, cfg: str | None = None,
              shards: int | None = None, env: dict | None = None,
              timeout: int = 3600, name: str | None = None) -> Judgement:
    """Have TLC judge *records* (list of JSON-able dicts, each with an 'id')
    with spec/<module>.tla: one record per initial state."""
    if not records:
        return Judgement()
    sc = scratch()
    shards = shards or max(1, min(NCPU, len(records) // 20 or 1))
    d = Path(tempfile.mkdtemp(prefix=(name or module) + '-', dir=sc))
    chunks = [records[k::shards] for k in range(shards)]
    paths = []
    for k, ch in enumerate(chunks):
        if not ch:
            continue
        p = d / f'shard{k}.ndjson'
        with p.open('w', encoding='utf-8') as fh:
            for rec in ch:
                fh.write(json.dumps(rec, ensure_ascii=False, separators=(',', ':')))
                fh.write('\n')
        paths.append((p, len(ch)))
    total = Judgement()
    with ThreadPoolExecutor(max_workers=NCPU) as ex:
        futs = [ex.submit(_judge_shard, module, cfg, p, n, env, timeout)
                for p, n in paths]
        for f in futs:
            total.merge(f.result())
    shutil.rmtree(d, ignore_errors=True)
    if total.judged != total.records:
        raise MachineryError(
            f'{module}: TLC judged {total.judged} of {total.records} records '
            '(duplicate or unreadable records)')
    return total


# --------------------------------------------------------------------------
# known findings, verdict, evidence
# --------------------------------------------------------------------------

def known_findings() -> dict:
    p = VERIF / 'known_findings.json'
    if not p.exists():
        return {'findings': [], 'fixed': []}
    return json.loads(p.read_text())


class Verdict:
    """Collects violations / known findings of one check run and writes the
    evidence file."""

    def __init__(self, pid: str, tier: str, level: str = 'model_checking'):
        self.pid = pid
        self.tier = tier
        self.level = level
        self.t0 = time.time()
        self.violations = []      # (summary, replay-dict)
        self.known = {}           # finding id -> (text, count)
        self.cov = {'states': 0, 'transitions': 0,
                    'traces_validated_against_impl': 0, 'samples': [],
                    'evaluations': 0, 'distinct_nontrivial': 0}
        self.notes = []
        self.assumptions = []
        kf = known_findings()
        # a finding belongs to one property; other checks that necessarily run into it
        # are named in its 'also_seen_by' list
        self._listed = {f['id']: f for f in kf.get('findings', [])
                        if f.get('property') == pid or pid in f.get('also_seen_by', [])}

    # -- model side
    def add_model(self, name: str, r: TLCResult, expect_violation: str | None = None):
        self.cov['states'] += r.distinct
        self.cov['transitions'] += r.transitions
        self.cov.setdefault('models', []).append(
            {'name': name, 'states': r.distinct, 'transitions': r.transitions,
             'depth': r.depth, 'wall_s': round(r.wall, 1),
             'violated': r.violated})
        if r.violated and not expect_violation:
            self.violation(f'model {name}: TLC reports {r.violated}',
                           {'model': name, 'tlc_tail': r.out[-3000:]})

    # -- implementation side
    def add_judgement(self, name: str, j: Judgement, records_by_id: dict | None = None,
                      nontrivial: int | None = None):
        self.cov['traces_validated_against_impl'] += j.judged
        self.cov['evaluations'] += j.judged
        if nontrivial is not None:
            self.cov['distinct_nontrivial'] += nontrivial
        self.cov.setdefault('judges', []).append(
            {'name': name, 'records': j.records, 'judged_by_tlc': j.judged,
             'unexplained': len(j.fails), 'explained_by_deviation': len(j.devs),
             'wall_s': round(j.wall, 1)})
        for f in j.fails:
            rec = (records_by_id or {}).get(f.get('id'))
            self.violation(f"{name}: record {f.get('id')} fails {f.get('c')}",
                           {'judge': name, 'fail': f, 'record': rec})
        for d in j.devs:
            rec = (records_by_id or {}).get(d.get('id'))
            for dev in d.get('d', []):
                self.deviation(dev, f"{name}: record {d.get('id')}",
                               {'judge': name, 'dev': d, 'record': rec})

    def deviation(self, dev: str, where: str, replay: dict):
        """A record explained only by the named deviation action of the spec."""
        if dev in self._listed:
            txt, n, ex = self.known.get(dev, (self._listed[dev]['what'], 0, where))
            self.known[dev] = (txt, n + 1, ex)
        else:
            self.violation(f'{where}: unlisted deviation {dev}', replay)

    def violation(self, summary: str, replay: dict):
        self.violations.append((summary, replay))

    def sample(self, s):
        if len(self.cov['samples']) < 6:
            self.cov['samples'].append(s)

    def finish(self) -> int:
        wall = time.time() - self.t0
        OUT.mkdir(exist_ok=True)
        d = OUT / self.pid
        if d.exists():
            shutil.rmtree(d, ignore_errors=True)
        d.mkdir(parents=True, exist_ok=True)
        for dev, (txt, n, ex) in sorted(self.known.items()):
            print(f'KNOWN-FINDING: property={self.pid} {dev}: {txt} '
                  f'[{n} observation(s), e.g. {ex}]')
        for k, (summary, replay) in enumerate(self.violations[:50]):
            p = d / f'violation-{k:03d}.json'
            p.write_text(json.dumps({'property': self.pid, 'summary': summary,
                                     'seed': seed(), 'tier': self.tier,
                                     'replay': replay},
                                    ensure_ascii=False, indent=1, default=str))
            print(f'VIOLATION property={self.pid} replay={p}')
            print(f'  {summary[:300]}')
        if len(self.violations) > 50:
            print(f'  ... and {len(self.violations) - 50} more violations')
        if self.violations:
            hist = {}
            for summary, replay in self.violations:
                f = (replay or {}).get('fail') or {}
                names = []
                for c in f.get('c', []) if isinstance(f, dict) else []:
                    if isinstance(c, dict) and 'q' in c:
                        names.append(str(c['q']).split('|')[0])
                    else:
                        names.append(c[0] if isinstance(c, list) else str(c))
                if not names:
                    names = [summary.split(':')[-1].strip()[:60]]
                for n in set(names):
                    hist[n] = hist.get(n, 0) + 1
            print('  failing clauses: ' + ', '.join(f'{k} x{n}' for k, n in sorted(hist.items())))
        cov = dict(self.cov)
        if not cov['samples']:
            cov['samples'] = ['(no sample recorded)']
        if cov['states'] == 0:
            cov.pop('states'); cov.pop('transitions')
        cov['known_findings_observed'] = {k: v[1] for k, v in self.known.items()}
        cov['notes'] = self.notes
        ev = {'property_id': self.pid, 'tier': self.tier, 'seed': seed(),
              'level': self.level, 'coverage': cov,
              'assumptions': self.assumptions, 'wall_s': round(wall, 2),
              'violations': len(self.violations)}
        # checks beyond the listed properties (ids X..) keep their evidence apart
        evdir = EVID / 'extra' if self.pid.startswith('X') else EVID
        evdir.mkdir(exist_ok=True, parents=True)
        (evdir / f'{self.pid}.json').write_text(
            json.dumps(ev, ensure_ascii=False, indent=1, default=str))
        print(f'{self.pid} [{self.tier}] '
              f'{"VIOLATED" if self.violations else "held"}: '
              f'{cov.get("states", 0)} model states, '
              f'{cov["traces_validated_against_impl"]} impl records judged by TLC, '
              f'{len(self.known)} known finding(s), {wall:.0f}s')
        return 1 if self.violations else 0


# --------------------------------------------------------------------------
# running driver code against /repo in worker processes
# --------------------------------------------------------------------------

def run_driver(script: str, jobs: list, *, timeout: int = 600,
               hashseed: int | str = 0, procs: int | None = None,
               env: dict | None = None) -> list:
    """_run_driver plus one more chance for cases that ran out of time: a case (an element of
    job['cases'] whose observation in result['obs'] says 'timeout') is run again alone, with
    ten times the per-case limit, before its time-out is believed.  More than 40 such cases
    are a changed code base, not bad luck: then only the first 40 are tried again."""
    res = _run_driver(script, jobs, timeout=timeout, hashseed=hashseed, procs=procs, env=env)
    if (env or {}).get('WN_VERIF_TIMEOUT_SCALE'):
        return res
    again = []      # (job index, position in obs, case)
    for ji, (j, r) in enumerate(zip(jobs, res)):
        cases = j.get('cases') if isinstance(j, dict) else None
        if not isinstance(cases, list):
            continue
        if r is None or r.get('timeout') or r.get('skipped') or 'obs' not in r:
            # the whole job was lost: every case of it gets its own job
            res[ji] = {'obs': [{'id': c.get('id'), 'timeout': True} for c in cases]}
            r = res[ji]
        byid = {c.get('id'): c for c in cases if isinstance(c, dict)}
        for k, o in enumerate(r['obs']):
            if isinstance(o, dict) and o.get('timeout') and o.get('id') in byid:
                again.append((ji, k, byid[o['id']]))
    if not again:
        return res
    again = again[:40]
    e2 = dict(env or {})
    e2['WN_VERIF_TIMEOUT_SCALE'] = '10'
    jobs2 = [dict(jobs[ji], cases=[c]) for ji, k, c in again]
    res2 = _run_driver(script, jobs2, timeout=timeout, hashseed=hashseed, procs=procs, env=e2)
    # (a case may yield several observations: the timed-out entry is replaced by all of them)
    repl = {}
    for (ji, k, c), r2 in zip(again, res2):
        if r2 and isinstance(r2.get('obs'), list) and r2['obs']:
            repl[(ji, k)] = r2['obs']
    for ji in {ji for ji, _ in repl}:
        new_obs = []
        for k, o in enumerate(res[ji]['obs']):
            new_obs.extend(repl.get((ji, k), [o]))
        res[ji]['obs'] = new_obs
    return res


def _run_driver(script: str, jobs: list, *, timeout: int = 600,
                hashseed: int | str = 0, procs: int | None = None,
                env: dict | None = None) -> list:
    """Run harness/<script> in worker processes (python of /venv, wn imported
    from /repo's working tree).  *jobs* is a list of JSON-able job dicts; each
    worker gets a slice, writes one JSON result line per job.  A job that does
    not finish within *timeout* seconds yields {'timeout': True}."""
    if not jobs:
        return []
    sc = scratch()
    procs = min(procs or NCPU, len(jobs))
    d = Path(tempfile.mkdtemp(prefix='drv-', dir=sc))
    chunks = [list(range(k, len(jobs), procs)) for k in range(procs)]
    ps = []
    e = dict(os.environ)
    e.update({'PYTHONHASHSEED': str(hashseed), 'PYTHONDONTWRITEBYTECODE': '1',
              'PYTHONPATH': f'{REPO}:{VERIF}', 'WN_VERIF_SCRATCH': str(d)})
    e.update({k: str(v) for k, v in (env or {}).items()})
    for k, idxs in enumerate(chunks):
        jp = d / f'jobs{k}.json'
        jp.write_text(json.dumps([jobs[i] for i in idxs], ensure_ascii=False))
        rp = d / f'res{k}.ndjson'
        cmd = [PY, str(VERIF / 'harness' / script), str(jp), str(rp)]
        covdir = os.environ.get('WN_VERIF_COV')
        if covdir:      # development aid: which lines of wn the drivers reach (coverage.py of /venv)
            cmd = [PY, '-m', 'coverage', 'run', f'--data-file={covdir}/.cov.{os.getpid()}.{script}.{k}.{time.time_ns()}',
                   f'--source={REPO}/wn'] + cmd[1:]
        p = subprocess.Popen(cmd,
                             env=e, cwd=str(d), stdout=subprocess.PIPE,
                             stderr=subprocess.STDOUT)
        ps.append((p, idxs, rp))
    results = [None] * len(jobs)
    deadline = time.time() + timeout
    for p, idxs, rp in ps:
        try:
            out, _ = p.communicate(timeout=max(1, deadline - time.time()))
        except subprocess.TimeoutExpired:
            p.kill()
            out, _ = p.communicate()
        for ln in out.decode('utf-8', 'replace').splitlines():
            if ln.startswith('driver: unexpected exception'):
                print('  ' + ln[:300])
        lines = rp.read_text(encoding='utf-8').splitlines() if rp.exists() else []
        for n, line in enumerate(lines):
            try:
                results[idxs[n]] = json.loads(line)
            except ValueError:
                pass
        missing = [i for i in idxs if results[i] is None]
        if missing:
            if p.returncode not in (0, -9):
                raise MachineryError(
                    f'driver {script} crashed (rc={p.returncode}):\n'
                    + out.decode('utf-8', 'replace')[-4000:])
            # the first missing job is the one that hung
            results[missing[0]] = {'timeout': True}
            for i in missing[1:]:
                results[i] = {'skipped': True}
    shutil.rmtree(d, ignore_errors=True)
    return results
