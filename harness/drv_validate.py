"""Driver for C18: (possibly broken) lexicons are written as WN-LMF, loaded with
wn.lmf.load, validated with several `select' arguments, and added to a scratch
database."""
from __future__ import annotations

import contextlib
import io

import wn
from wn import lmf
from wn.validate import validate

from harness import lmfgen
from harness.wnenv import fresh_db, base_dir, main_loop, exc_name, JobTimeout, limit


def flatten(lex) -> dict:
    """the relational form spec/WnValidate.tla works on (from the loaded lexicon)"""
    texts = set()

    def blank(t):
        texts.add(t)
        return t
    out = {'id': lex['id'], 'forms': [], 'frames': [], 'entries': [], 'senses': [],
           'synsets': [], 'srels': [], 'ssrels': []}
    for sb in lex.get('frames', []):
        if sb.get('id'):
            out['frames'].append(sb['id'])
    for ei, e in enumerate(lex.get('entries', []), 1):
        out['entries'].append([e['id'], e['lemma']['writtenForm']])
        for f in e.get('forms', []):
            if f.get('id'):
                out['forms'].append(f['id'])
        for s in e.get('senses', []):
            out['senses'].append([s['id'], e['id'], s['synset'], ei])
            for r in s.get('relations', []):
                out['srels'].append([s['id'], r['relType'], r['target'],
                                     (r.get('meta') or {}).get('type', '~')])
    for ss in lex.get('synsets', []):
        out['synsets'].append([ss['id'], ss['ili'], ss.get('partOfSpeech', '~'),
                               bool(ss.get('ili_definition')),
                               [blank(d['text']) for d in ss.get('definitions', [])],
                               [blank(x['text']) for x in ss.get('examples', [])]])
        for r in ss.get('relations', []):
            out['ssrels'].append([ss['id'], r['relType'], r['target'],
                                  (r.get('meta') or {}).get('type', '~')])
    out['blank'] = sorted(t for t in texts if t.strip() == '')
    return out


def ctx(code, items):
    rows = []
    for k, c in items.items():
        if isinstance(c, dict) and 'type' in c and 'target' in c:
            rows.append([str(k), c['type'], c['target']])
    return sorted(rows)


def handle(job):
    out = []
    for case in job['cases']:
        p = base_dir() / 'val.xml'
        p.write_text(lmfgen.to_xml({'lmf_version': case.get('version', '1.1'),
                                    'lexicons': [case['lex']]}), encoding='utf-8')
        o = {'id': case['id'], 'defects': case.get('defects', [])}
        try:
            with limit(60):
                res = lmf.load(p, progress_handler=None)
                lex = res['lexicons'][0]
                o['lex'] = flatten(lex)
                runs = []
                for sel in case['selects']:
                    try:
                        with contextlib.redirect_stdout(io.StringIO()):
                            rep = validate(lex, select=sel, progress_handler=None)
                        rows = []
                        for code, chk in rep.items():
                            items = chk['items']
                            rows.append([code, sorted(str(k) for k in items), ctx(code, items)])
                        runs.append([sel, 'ok', rows])
                    except JobTimeout:
                        raise
                    except Exception as e:
                        runs.append([sel, 'exc:' + exc_name(e), []])
                o['runs'] = runs
                # the command line: exit status 0 iff no selected check lists anything
                o['cli'] = []
                if case.get('cli'):
                    import subprocess, sys, os, json as _json
                    for sel in case['cli']:
                        outp = base_dir() / 'cli-report.json'
                        if outp.exists():
                            outp.unlink()
                        pr = subprocess.run(
                            [sys.executable, '-m', 'wn', '-d', str(base_dir() / 'clidata'), 'validate',
                             str(p), '--select', ','.join(sel), '--output-file', str(outp)],
                            capture_output=True, env=dict(os.environ), timeout=60)
                        codes = sorted(_json.loads(outp.read_text())) if outp.exists() else []
                        o['cli'].append([sel, pr.returncode, codes])
                fresh_db('val')
                try:
                    wn.add(p, progress_handler=None)
                    o['add'] = 'ok'
                except JobTimeout:
                    raise
                except Exception as e:
                    o['add'] = 'exc:' + exc_name(e)
        except JobTimeout:
            o = {'id': case['id'], 'timeout': True}
        out.append(o)
    return {'obs': out}


if __name__ == '__main__':
    main_loop(handle, per_job_timeout=3600)
