"""C04 C10 C11 C12 (query engine).  Model: spec/WnQuery.tla; worlds of several
lexicons (harness/worlds.py) are installed, a battery of public calls is
recorded under many Wordnet configurations and judged by TLC (Judge_Query)."""
from __future__ import annotations

import random

from harness import worlds
from harness.core import Verdict, tlc_model, tlc_judge, run_driver, seed, NCPU

SYN_ARGS = [[], ['*'], ['hypernym'], ['hypernym', 'hyponym'], ['also', 'similar', 'weird_type'],
            ['nonexistent'], ['hypernym', 'instance_hypernym', 'mero_part']]
SENSE_ARGS = [[], ['*'], ['antonym'], ['derivation', 'also'], ['domain_topic'],
              ['domain_topic', 'other', 'exemplifies'], ['nonexistent']]
ARGSETS = {'synset': SYN_ARGS, 'sense': SENSE_ARGS}


def cfg(lexicon='~', lang='~', expand='~', **kw):
    d = {'lexicon': lexicon, 'lang': lang, 'expand': expand}
    d.update(kw)
    return d


def run_cases(cases):
    per = max(1, len(cases) // (NCPU * 3))
    jobs = [{'cases': cases[k:k + per]} for k in range(0, len(cases), per)]
    res = run_driver('drv_query.py', jobs, timeout=3000)
    recs = []
    for j, r in zip(jobs, res):
        if r is None or 'obs' not in r:
            recs.extend({'id': c['id'], 'timeout': True} for c in j['cases'])
        else:
            recs.extend(r['obs'])
    return recs


def to_records(recs, groups):
    """one judge record per world and installed-set (initial + after each perturbation)"""
    out = []
    for r in recs:
        if r.get('timeout'):
            out.append(r)
            continue
        inst = [l[0] for l in r['tables']['lex']]
        out.append({'id': f"{r['id']}", 'tables': r['tables'], 'inst': inst, 'obs': r['obs'],
                    'groups': groups})
        for k, a in enumerate(r.get('after', [])):
            if a['obs']:
                out.append({'id': f"{r['id']}+{k + 1}", 'tables': r['tables'], 'inst': a['inst'],
                            'obs': a['obs'], 'groups': groups, 'step': a['step']})
    return out


def stability_pairs(recs):
    """(world, configuration) -> digest of everything the battery returned; recorded
    before and after lexicons outside the selection were removed / added"""
    import hashlib
    import json
    pairs = set()
    n = 0
    for r in recs:
        if r.get('timeout'):
            continue
        for a in r.get('after', []):
            for o, k in zip(a['obs'], a['same_as']):
                if k < 0:
                    continue
                n += 1
                key = f"{r['id']}|{json.dumps(o['cfg'], sort_keys=True)}"
                for ob in (r['obs'][k], o):
                    d = {x: ob[x] for x in ob if x not in ('cfg', 'TS', 'TW', 'RT', 'FQ')}
                    # forms / tags of words are judged per record (known deviations)
                    d['W'] = [t[:5] for t in ob['W']]
                    # translate() asks other lexicons on purpose
                    d['Y'] = [t[:9] + t[10:] for t in ob['Y']]
                    pairs.add((key, hashlib.sha256(json.dumps(d, sort_keys=True).encode()).hexdigest()[:16]))
    return pairs, n


def c11(tier: str) -> int:
    v = Verdict('C11', tier)
    thorough = tier == 'thorough'
    v.assumptions = ['relation graphs are materialised with the documented extension patterns '
                     '(External* elements for references into the direct base)',
                     'expand lexicons are switched off here (expand=""); borrowing is C12']
    v.add_model('MC_Query (closure / relation_paths algorithms refine the declarative operators)',
                tlc_model('MC_Query'))
    rng = random.Random(seed() + 11)
    cases = []
    for k in range(1500 if thorough else 160):
        w = worlds.relation_world(rng)
        specs = [l[0] for l in w.lex]
        configs = [cfg('b:1', expand='-'), cfg('b:1 x:1', expand='-'), cfg('x:1', expand='-'),
                   cfg(expand='-'), cfg('*', expand='-')]
        if 'y:1' in specs:
            configs += [cfg('b:1 x:1 y:1', expand='-'), cfg('x:1 y:1', expand='-')]
        cases.append({'id': k + 1, 'tables': w.tables(), 'configs': configs, 'want': ['rel'],
                      'argsets': ARGSETS})
    recs = run_cases(cases)
    jrecs = to_records(recs, ['ctor', 'rel', 'nav'])
    jd = tlc_judge('Judge_Query', jrecs, cfg='Judge.cfg', shards=NCPU)
    v.add_judgement('Judge_Query (relations)', jd, {x['id']: x for x in jrecs},
                    nontrivial=sum(1 for c in cases if len(c['tables']['ssrels']) >= 2))
    v.cov['rule'] = ('random worlds: base + extension (+ extension of the extension) with arbitrary sense-sense, '
                     'sense-synset and synset-synset relation multigraphs (self-loops, cycles, parallel relations '
                     'of other type / dc:type, duplicates, non-standard types, metadata) x scopes {base, base+ext, '
                     'ext only, default, *} x 7 relation-type argument sets; non-trivial = >= 2 synset relations')
    for x in jrecs[:1]:
        v.sample({'tables': x.get('tables'), 'first_cfg': (x.get('obs') or [{}])[0].get('cfg')})
    return v.finish()


def c12(tier: str) -> int:
    v = Verdict('C12', tier)
    thorough = tier == 'thorough'
    v.assumptions = ['placeholder synsets are named by their ILI; they are followed for two more steps',
                     'a dependency that is declared but not installed must produce a WnWarning naming it']
    v.add_model('MC_Expand (borrowed relations: own first, targets in scope or placeholders)',
                tlc_model('MC_World', 'MC_Expand.cfg'))
    rng = random.Random(seed() + 12)
    cases = []
    for k in range(1500 if thorough else 170):
        w = worlds.expand_world(rng)
        specs = [l[0] for l in w.lex]
        configs = [cfg('l:1'), cfg('l:1', expand='-'), cfg('l:1', expand='e:1'), cfg('l:1', expand='*'),
                   cfg(), cfg(lang='de'), cfg('l:1', expand='zz:9'), cfg('l:1 e:1'), cfg('e:1')]
        if 'f:2' in specs:
            configs += [cfg('l:1', expand='e:1 f:2'), cfg('l:1', expand='f:2'), cfg(lang='fr', expand='l:1')]
        if 'm:1' in specs:
            configs += [cfg('l:1 m:1'), cfg('m:1'), cfg('m:1 l:1', expand='e:*'), cfg('l:1', expand='e')]
        perturb = [['remove', 'e:1', 'all']] if rng.random() < 0.4 else []
        cases.append({'id': k + 1, 'tables': w.tables(), 'configs': configs, 'want': ['rel', 'exp'],
                      'argsets': {'synset': [[], ['hypernym'], ['hypernym', 'hyponym']], 'sense': [[]]},
                      'perturb': perturb})
    recs = run_cases(cases)
    jrecs = to_records(recs, ['ctor', 'exp'])
    jd = tlc_judge('Judge_Query', jrecs, cfg='Judge.cfg', shards=NCPU)
    nph = sum(1 for r in recs for o in r.get('obs', []) for t in o.get('Y', []) if len(t) > 10 and t[10])
    v.add_judgement('Judge_Query (expand)', jd, {x['id']: x for x in jrecs}, nontrivial=nph)
    v.cov['synsets_with_placeholder_targets'] = nph
    v.cov['rule'] = ('random worlds: L (de) with partially overlapping ILIs against E (en) and sometimes F (fr): '
                     'repeated, proposed and absent ILIs, L missing some of E\'s concepts, own relations in L; '
                     'dependency declared / undeclared, installed / missing / removed later x expand in '
                     '{default, "", E, E F, F, *, unknown} and default mode; non-trivial = synset observations '
                     'with at least one placeholder target')
    for x in jrecs[:1]:
        v.sample({'tables': x.get('tables'), 'cfgs': [o['cfg'] for o in x.get('obs', [])][:4]})
    return v.finish()


def scope_cases(rng, n, want):
    cases = []
    for k in range(n):
        w = worlds.scope_world(rng)
        specs = [l[0] for l in w.lex]
        tr = ['a:1', 'u:1', 'a:*', '*', 'zz:1', 'x:1']
        configs = [cfg(translate=tr), cfg('a:1', translate=tr), cfg('a:1 x:1', translate=tr), cfg('x:1'),
                   cfg('u:1', translate=tr), cfg('u:1', expand='-'), cfg(lang='en'), cfg(lang='fr'),
                   cfg('a:1', expand='u:1'), cfg('a', nostab=True), cfg('a:1 u:1')]
        if 'a:2' in specs:
            configs += [cfg('a:2', translate=tr), cfg('a:1 a:2'), cfg('x:1 a:2'), cfg('a:*', nostab=True)]
        if 'x:2' in specs:
            configs += [cfg('a:1 x:1 x:2'), cfg('a:1 x:2'), cfg('x:*', nostab=True)]
        perturb = [['remove', 'x:1', 'some'], ['remove', 'u:1', 'some'], ['add', 'x:1', 'some'],
                   ['remove', 'a:1', 'some'], ['add', 'u:1', 'some'], ['add', 'a:1', 'some']]
        if 'a:2' in specs:
            perturb.insert(2, ['remove', 'a:2', 'some'])
            perturb.append(['add', 'a:2', 'some'])
        cases.append({'id': k + 1, 'tables': w.tables(), 'configs': configs, 'want': want,
                      'argsets': {'synset': [[], ['hypernym', 'hyponym']], 'sense': [[], ['antonym', 'also']]},
                      'perturb': perturb})
    return cases


def c10(tier: str) -> int:
    v = Verdict('C10', tier)
    thorough = tier == 'thorough'
    v.assumptions = ['order among senses of equal rank (base and extension ranks both start at 0) is unspecified',
                     'when the declared word / synset of a sense lies outside the selection only C04 applies']
    v.add_model('MC_Nav (inverse laws, images, translation symmetric)', tlc_model('MC_World', 'MC_Nav.cfg'))
    rng = random.Random(seed() + 10)
    cases = scope_cases(rng, 1200 if thorough else 150, ['rel'])
    for c in cases:
        c['perturb'] = []
    recs = run_cases(cases)
    jrecs = to_records(recs, ['ctor', 'nav'])
    jd = tlc_judge('Judge_Query', jrecs, cfg='Judge.cfg', shards=NCPU)
    v.add_judgement('Judge_Query (navigation)', jd, {x['id']: x for x in jrecs}, nontrivial=len(cases))
    v.cov['rule'] = ('random worlds: a:1 and a:2 with the same ids, an extension of a:1 whose senses attach to '
                     'base entries / synsets, a French lexicon sharing ILIs (repeated, proposed, absent) x 11-15 '
                     'selections (default, single, several, lang) x all entities; every world is non-trivial')
    for x in jrecs[:1]:
        v.sample({'lex': x.get('tables', {}).get('lex'), 'cfgs': [o['cfg'] for o in x.get('obs', [])][:4]})
    return v.finish()


def c04(tier: str) -> int:
    v = Verdict('C04', tier)
    thorough = tier == 'thorough'
    v.assumptions = ['stability is checked for configurations given by full specifiers (a bare id legitimately '
                     'follows the most recently added version)',
                     'a lexicon is outside a selection when neither it nor any of its extensions is selected or expanded']
    v.add_model('MC_Scope (every result of a restricted wordnet lies in S; insensitive to outside lexicons)',
                tlc_model('MC_World', 'MC_Scope.cfg'))
    rng = random.Random(seed() + 4)
    cases = scope_cases(rng, 1000 if thorough else 120, ['rel', 'exp'])
    recs = run_cases(cases)
    jrecs = to_records(recs, ['ctor', 'scope', 'exp'])
    jd = tlc_judge('Judge_Query', jrecs, cfg='Judge.cfg', shards=NCPU)
    v.add_judgement('Judge_Query (scope)', jd, {x['id']: x for x in jrecs}, nontrivial=len(cases))
    pairs, n = stability_pairs(recs)
    from harness.check_store import judge_functional
    judge_functional(v, 'Judge_Functional (results are a function of configuration and selected content)', pairs)
    v.cov['stability_comparisons'] = n
    v.cov['rule'] = ('worlds as in C10 x selections x every query / navigation / relation method on every entity; '
                     'then lexicons are removed and added again one by one and every configuration whose '
                     'selection and expand set do not contain the lexicon (or its extensions) is observed again; '
                     'every world is non-trivial')
    for x in jrecs[:1]:
        v.sample({'lex': x.get('tables', {}).get('lex'), 'cfgs': [o['cfg'] for o in x.get('obs', [])][:4]})
    return v.finish()
