"""Checks beyond the twenty listed properties: parts of wn the specification was
grown to cover.  X01: the project index of wn.config (spec/WnConfig.tla)."""
from __future__ import annotations

import random

from harness.core import (Verdict, tlc_model, tlc_judge, run_tlc, run_driver, run_apalache, seed, NCPU,
                          MachineryError)

N = '~'
A = '-'


def mkver(ver, url=A, error=A, license=A):
    return {'version': ver, 'url': url, 'error': error, 'license': license,
            'has': [f for f, x in (('url', url), ('error', error), ('license', license)) if x != A]}


def mkentry(pid, label=A, license=A, error=A, versions=(), language=A, type=A):
    return {'id': pid, 'type': type, 'label': label, 'language': language, 'license': license,
            'error': error, 'versions': list(versions),
            'has': [f for f, x in (('type', type), ('label', label), ('language', language),
                                   ('license', license), ('error', error)) if x != A]}


def random_history(rng: random.Random, n: int) -> list:
    ids = ['p', 'q', 'p:x', 'r']
    vers = ['1', '2', '1:2', '2021']
    urls = ['u1', 'u2', 'u1 u2', 'u2  u1', ' ', '', N]
    ops = []
    for _ in range(n):
        k = rng.random()
        if k < 0.15:
            ops.append(['add_project', rng.choice(ids), rng.choice(['wordnet', 'ili', N]),
                        rng.choice([N, 'A', 'B']), rng.choice([N, 'en']), rng.choice([N, 'L']),
                        rng.choice([N, N, '', 'E'])])
        elif k < 0.35:
            ops.append(['add_version', rng.choice(ids + ['zz']), rng.choice(vers), rng.choice(urls),
                        rng.choice([N, N, '', 'E', 'F']), rng.choice([N, '', 'M'])])
        elif k < 0.6:
            doc = []
            for pid in rng.sample(ids, rng.choice([1, 1, 2, 3])):
                vs = [mkver(v, rng.choice([A, A, 'u1', 'u1 u2', '']), rng.choice([A, A, 'E', '']),
                            rng.choice([A, A, 'M']))
                      for v in rng.sample(vers, rng.choice([0, 1, 1, 2]))]
                doc.append(mkentry(pid, rng.choice([A, 'A', 'B']), rng.choice([A, A, 'L']),
                                   rng.choice([A, A, A, 'E', '']), vs, rng.choice([A, A, 'en']),
                                   rng.choice([A, A, 'ili'])))
            ops.append(['update', doc, rng.choice(['dict', 'toml'])])
        elif k < 0.68:
            ops.append(['touch', rng.choice(['u1', 'u2'])])
        elif k < 0.93:
            pid = rng.choice(ids + ['zz', ''])
            ops.append(['info', rng.choice([pid, pid + ':' + rng.choice(vers + ['', '*', '9', ':'])])])
        else:
            ops.append(['projects'])
    return ops


def x01(tier: str) -> int:
    v = Verdict('X01', tier)
    thorough = tier == 'thorough'
    v.assumptions = [
        'not one of the listed properties: the project index (wn/_config.py) as the specification '
        'describes it - first listed version is the default, nothing is ever deleted, update() '
        'applies left to right and keeps what it did before an error',
        'cache files are named by the harness with its own blake2b/20 of the url, not by '
        'wn._util.short_hash']
    v.add_model('MC_Config (all call sequences over 2 projects x 2 versions x 2 urls, '
                f'depth {3 if thorough else 2})',
                tlc_model('MC_Config', cfg='MC_Config3.cfg' if thorough else 'MC_Config.cfg'))
    nwalk = 1500 if thorough else 150
    sim = run_tlc('MC_ConfigWalk', workers=1, simulate=f'num={nwalk}',
                  extra=['-depth', '30', '-seed', str(seed() + 101)], timeout=1800)
    walks = [w for w in sim.printed() if isinstance(w, list) and w and isinstance(w[0], dict)]
    if sim.rc != 0 or len(walks) < nwalk // 2:
        raise MachineryError('TLC -simulate produced no behaviours:\n' + sim.out[-2000:])
    v.cov['tlc_simulated_behaviours'] = len(walks)
    rng = random.Random(seed() + 101)
    jobs = [{'ops': [st['op'] for st in w], 'exp': w} for w in walks]
    jobs += [{'ops': random_history(rng, 30)} for _ in range(2000 if thorough else 150)]
    res = run_driver('drv_config.py', jobs, timeout=1800)
    recs = []
    for j, r in zip(jobs, res):
        if r is None or 'recs' not in r:
            recs.append({'timeout': True, 'op': ['?']})
            continue
        for k, rec in enumerate(r['recs']):
            if 'exp' in j:
                rec['exp'] = {'res': j['exp'][k]['res'], 'idx': j['exp'][k]['idx']}
            recs.append(rec)
    for k, r in enumerate(recs, 1):
        r['id'] = k
    j = tlc_judge('Judge_Config', recs, cfg='Judge.cfg', shards=NCPU)
    v.add_judgement('Judge_Config', j, {r['id']: r for r in recs},
                    nontrivial=sum(1 for r in recs if r.get('pre') != r.get('post')))
    v.cov['rule'] = ('behaviours simulated by TLC from MC_ConfigWalk replayed on WNConfig, plus random '
                     'histories over a wider alphabet (ids with colons, load_index through TOML); '
                     'every call judged as a step of WnConfig; non-trivial = the index changed')
    for r in recs[5:8]:
        v.sample({'op': r.get('op'), 'res': r.get('res')})
    return v.finish()


U1, U2, U3 = 'http://a/1', 'https://b/1', 'http://c/2'


def download_history(rng: random.Random, n: int) -> list:
    urls = [U1, U2, U3]
    beh = [['ok', 'g1'], ['ok', 'g2'], ['ok', 'bad'], ['status'], ['unreachable'], ['drop']]
    args = ['p', 'p:1', 'p:2', 'p:3', 'p:9', 'p:*', 'p:', 'q', 'q:1', 'r', 'r:1', 'zz', U1, U2, U3]
    ops = [['init', {u: rng.choice(beh) for u in urls}]]
    for _ in range(n):
        k = rng.random()
        if k < 0.3:
            ops.append(['server', rng.choice(urls), rng.choice(beh)])
        elif k < 0.4:
            ops.append(['evict', rng.choice(urls)])
        else:
            ops.append(['call', rng.choice(args), rng.random() < 0.5])
    return ops


def x02(tier: str) -> int:
    v = Verdict('X02', tier)
    thorough = tier == 'thorough'
    v.assumptions = [
        'not one of the listed properties: wn.download() as the specification describes it - cached '
        'file first, mirrors in order, a transport failure moves on and leaves no file, an HTTP status '
        'ends the call, a file that cannot be added stays cached',
        'the network is httpx.MockTransport scripted by the harness; httpx.Client is replaced in the '
        'driver process only (no change to wn)',
        'cache files are recognised by the harness\'s own blake2b/20 of the url and by their bytes']
    v.add_model(f'MC_Download (3 urls, 6 server behaviours, depth {7 if thorough else 5})',
                tlc_model('MC_Download', cfg='MC_Download7.cfg' if thorough else 'MC_Download.cfg'))
    nwalk = 600 if thorough else 60
    sim = run_tlc('MC_DownloadWalk', workers=1, simulate=f'num={nwalk}',
                  extra=['-depth', '30', '-seed', str(seed() + 102)], timeout=1800)
    walks = [w for w in sim.printed() if isinstance(w, list) and w and isinstance(w[0], dict)]
    if sim.rc != 0 or len(walks) < nwalk // 2:
        raise MachineryError('TLC -simulate produced no behaviours:\n' + sim.out[-2000:])
    v.cov['tlc_simulated_behaviours'] = len(walks)
    rng = random.Random(seed() + 102)
    jobs = [{'ops': [st['op'] for st in w], 'exp': w} for w in walks]
    jobs += [{'ops': download_history(rng, 25)} for _ in range(800 if thorough else 60)]
    res = run_driver('drv_download.py', jobs, timeout=3000)
    recs = []
    for j, r in zip(jobs, res):
        if r is None or 'recs' not in r:
            recs.append({'timeout': True, 'op': ['?']})
            continue
        for k, rec in enumerate(r['recs']):
            if 'exp' in j:
                e = j['exp'][k]
                rec['exp'] = {'res': e['res'], 'reqs': e['reqs'], 'cache': e['cache'], 'db': e['db']}
            recs.append(rec)
    for k, r in enumerate(recs, 1):
        r['id'] = k
    j = tlc_judge('Judge_Download', recs, cfg='Judge.cfg', shards=NCPU)
    v.add_judgement('Judge_Download', j, {r['id']: r for r in recs},
                    nontrivial=sum(1 for r in recs if r.get('reqs')))
    v.cov['rule'] = ('behaviours simulated by TLC from MC_DownloadWalk replayed on wn.download() over a '
                     'scripted transport, plus random histories; every step judged against WnDownload; '
                     'non-trivial = the call made at least one request')
    for r in recs[3:6]:
        v.sample({'op': r.get('op'), 'res': r.get('res'), 'reqs': r.get('reqs')})
    return v.finish()


def x03(tier: str) -> int:
    """isolation and crash recovery of the store (an extension of C06's fault model)"""
    from harness.check_store import (make_snapshots, count_faults, check_universe_file, number)
    v = Verdict('X03', tier)
    check_universe_file()
    thorough = tier == 'thorough'
    v.assumptions = [
        'not one of the listed properties: what another process can do to a call in flight - read '
        'through a connection of its own at every progress callback, and kill the writer at every '
        'progress callback (os._exit in a child process: no handler, no rollback, no close)',
        'a reader refused by SQLite ("database is locked") counts as having seen nothing']
    v.add_model('MC_StoreConc (MC_Store + Read and Crash at every point of every transaction)',
                tlc_model('MC_StoreConc'))
    snaps = make_snapshots({
        'S0': [],
        'S1': [['add', 'Ra1', 'xml']],
        'S2': [['add', 'Ra1', 'xml'], ['add', 'Rx', 'xml'], ['add', 'Ry', 'xml'],
               ['add', 'Rr', 'xml'], ['add', 'Ra2', 'xml'], ['ili', 'f1', 'xml']],
    })
    scen = [
        {'snap': 'S0', 'op': ['add', 'Rar', 'xml'], 'then': ['add', 'Rar', 'xml']},
        {'snap': 'S1', 'op': ['add', 'Rx', 'gz'], 'then': ['add', 'Rx', 'xml']},
        {'snap': 'S2', 'op': ['remove', '*'], 'then': ['add', 'Ru', 'xml']},
        {'snap': 'S2', 'op': ['remove', 'a:*'], 'then': ['remove', 'r']},
        {'snap': 'S1', 'op': ['ili', 'f1', 'xml'], 'then': ['ili', 'f2', 'xml']},
        {'snap': 'S1', 'op': ['addbad', 'Rx', 'sense_synset', 0], 'then': ['add', 'Rx', 'xml']},
    ]
    if thorough:
        scen += [
            {'snap': 'S0', 'op': ['add', 'Rua', 'tarpkg.xz'], 'then': ['add', 'Rua', 'xml']},
            {'snap': 'S1', 'op': ['add', 'Rar', 'mem'], 'then': ['add', 'Rr', 'xml']},
            {'snap': 'S2', 'op': ['remove', 'y r a'], 'then': ['add', 'Ry', 'xml']},
            {'snap': 'S2', 'op': ['add', 'Ru', 'pkg'], 'then': ['add', 'Ru', 'xml']},
            {'snap': 'S0', 'op': ['addcoll', ['Ra1', 'Ru'], 'coll'], 'then': ['add', 'Ra1', 'xml']},
        ]
    counts = count_faults(snaps, scen)
    jobs = []
    for s, (cb, _) in zip(scen, counts):
        jobs.append({'mode': 'iso', 'snap': snaps[s['snap']], 'op': s['op']})
        if s['op'][0] == 'addcoll':
            continue      # (collections: several transactions in an unspecified order)
        step = 1 if thorough or cb <= 40 else 2
        for k in range(1, cb + 1, step):
            jobs.append({'mode': 'crash', 'snap': snaps[s['snap']], 'op': s['op'], 'k': k,
                         'then': s['then']})
    res = run_driver('drv_store.py', jobs, timeout=3000)
    recs = []
    for j, r in zip(jobs, res):
        if r is None or 'recs' not in r:
            recs.append({'timeout': True, 'op': j['op']})
            continue
        recs.extend(r['recs'])
    number(recs)
    j = tlc_judge('Judge_Store', recs, cfg='Judge.cfg', shards=NCPU)
    crashed = sum(1 for r in recs if r.get('ret') == 'exc:crash')
    nviews = sum(len(r.get('views', [])) for r in recs)
    v.add_judgement('Judge_Store (readers and crashes)', j, {r['id']: r for r in recs},
                    nontrivial=crashed)
    v.cov['crash_points'] = crashed
    v.cov['reader_views'] = nviews
    v.cov['callbacks_watched'] = sum(r.get('callbacks', 0) for r in recs)
    v.cov['rule'] = ('for every scenario (state, operation): one run watched by a second connection at '
                     'every progress callback, and one child process killed at callback k for every k '
                     '(every second k in the quick tier when K > 40), the database then reopened and a '
                     'valid operation applied; non-trivial = the child really died inside the call')
    for r in recs[1:3]:
        v.sample({'op': r['op'], 'ret': r.get('ret'), 'fault': r.get('fault'),
                  'unchanged': r['pre']['rawsha'] == r['post']['rawsha']})
    return v.finish()


def x04(tier: str) -> int:
    v = Verdict('X04', tier)
    thorough = tier == 'thorough'
    v.assumptions = [
        'not one of the listed properties: data directories and cached connections (wn/_db.py): a '
        'call works on the database of the current wn.config.data_directory only, creates it when '
        'absent, and refuses a wn.db written by another schema without touching it',
        'which directories have a cached connection is read from wn._db.pool']
    v.add_model('MC_Session (3 directories, 2 lexicons, all call sequences to depth 7)',
                tlc_model('MC_Session'))
    if thorough:
        # unbounded: the invariant is inductive (Apalache): it holds initially and every call keeps it
        a0 = run_apalache('APA_Session', 'Init', 'IndInv', 0)
        a1 = run_apalache('APA_Session', 'IndInit', 'IndInv', 1)
        v.cov['apalache_inductive_invariant'] = {'base': a0['ok'], 'step': a1['ok'],
                                                 'wall_s': round(a0['wall'] + a1['wall'], 1)}
        for a in (a0, a1):
            if a['violated']:
                v.violation('APA_Session: the invariant is not inductive', {'apalache_tail': a['out'][-2000:]})
            elif not a['ok']:
                raise MachineryError('apalache-mc failed:\n' + a['out'][-2000:])
    nwalk = 800 if thorough else 120
    sim = run_tlc('MC_Session', cfg='MC_SessionWalk.cfg', workers=1, simulate=f'num={nwalk}',
                  extra=['-depth', '30', '-seed', str(seed() + 104)], timeout=1800)
    walks = [w for w in sim.printed() if isinstance(w, list) and w and isinstance(w[0], dict)]
    if sim.rc != 0 or len(walks) < nwalk // 2:
        raise MachineryError('TLC -simulate produced no behaviours:\n' + sim.out[-2000:])
    rng = random.Random(seed() + 104)
    jobs = [{'ops': [st['op'] for st in w], 'exp': w} for w in walks]
    alpha = ([['setdir', d] for d in 'ABF'] + [['list'], ['query'], ['query']]
             + [['add', l] for l in ('p:1', 'q:1', 'p:2')] + [['remove', l] for l in ('p:1', 'q:1', 'p:2')])
    jobs += [{'ops': [rng.choice(alpha) for _ in range(20)]} for _ in range(600 if thorough else 80)]
    res = run_driver('drv_session.py', jobs, timeout=3000)
    recs = []
    for j, r in zip(jobs, res):
        if r is None or 'recs' not in r:
            recs.append({'timeout': True, 'op': ['?']})
            continue
        for k, rec in enumerate(r['recs']):
            if 'exp' in j:
                rec['exp'] = {'res': j['exp'][k]['res'], 'disk': j['exp'][k]['disk']}
            recs.append(rec)
    for k, r in enumerate(recs, 1):
        r['id'] = k
    j = tlc_judge('Judge_Session', recs, cfg='Judge.cfg', shards=NCPU)
    v.add_judgement('Judge_Session', j, {r['id']: r for r in recs},
                    nontrivial=sum(1 for r in recs if r.get('pre') != r.get('post')))
    v.cov['tlc_simulated_behaviours'] = len(walks)
    v.cov['rule'] = ('behaviours simulated by TLC from MC_Session replayed in one process, plus random '
                     'histories (also removing by bare id, adding a second version); non-trivial = the '
                     'directories or the connection pool changed')
    for r in recs[2:4]:
        v.sample({'op': r.get('op'), 'cur': r.get('cur'), 'res': r.get('res')})
    return v.finish()
