"""Generator of WN-LMF lexical resources in the loader's normal form (the dicts
wn.lmf.load returns) for C01 C02 C03 C20, and `flat`, their semantic normal form
as relational tables with fixed columns ("~" = absent or empty, defaults made
explicit, metadata as canonical JSON) - the form spec/WnLmf.tla works on."""
from __future__ import annotations

import json
import random
import zlib

ABSENT = '~'

# adversarial payloads for attribute values and (whitespace-normalised) text
ATTR_PAYLOADS = [
    'plain', 'with "double" quotes', "with 'single' quotes", 'a < b & c > d', 'tab\there',
    'line\nbreak', 'cr\rhere', ']]> cdata end', 'é combining é', 'ß ﬁ Ǆ', '猫 ねこ', '😀 non-BMP',
    '‮RTL‬', '&amp; not an entity', '  leading and trailing  ', 'double  space',
    '&#10; literal ref', "mix \"'<>&", 'x', '%s {0} \\n', 'https://example.org/?a=1&b=2',
]
TEXT_PAYLOADS = [
    'plain text', 'with "double" quotes', "it's", 'a < b & c > d', ']]> cdata end', 'é é',
    '猫 ねこ', '😀', '‮RTL‬', '&amp; not an entity', '&#10; literal ref', 'x',
    'semi;colon', 'a b c d e f g',
]
DC = ['contributor', 'coverage', 'creator', 'date', 'description', 'format', 'identifier',
      'publisher', 'relation', 'rights', 'source', 'subject', 'title', 'type']


class Gen:
    def __init__(self, rng: random.Random, version: str, adversarial=True):
        self.r = rng
        self.v = version
        self.vt = tuple(int(x) for x in version.split('.'))
        self.adv = adversarial

    def chance(self, p):
        return self.r.random() < p

    def attr(self):
        return self.r.choice(ATTR_PAYLOADS) if self.adv else self.r.choice(['plain', 'x y', 'z'])

    def text(self):
        if self.chance(0.004):
            # longer than any buffer a parser is likely to use (expat's default is 8192)
            return ' '.join(f'w{k}' for k in range(2400))
        return self.r.choice(TEXT_PAYLOADS) if self.adv else self.r.choice(['plain text', 'x'])

    def meta(self, p=0.4):
        if not self.chance(p):
            return None
        m = {}
        for k in self.r.sample(DC, self.r.randint(1, 3)):
            m[k] = self.attr()
        if self.chance(0.3):
            m['status'] = self.attr()
        if self.chance(0.3):
            m['note'] = self.attr() if self.chance(0.8) else ''
        if self.chance(0.1):
            m[self.r.choice(DC)] = ''
        if self.chance(0.3):
            m['confidenceScore'] = self.r.choice(['0.9', '1.0', '0.25'])
        return m

    def lexicon(self, lid, ver, base=None, base_doc=None, size=3):
        r = self.r
        L = {'id': lid, 'version': ver, 'label': self.attr(), 'language': r.choice(['en', 'fr', 'zh-Hant']),
             'email': 'a@b.c', 'license': self.attr(), 'meta': self.meta()}
        if self.chance(0.12):
            # a required attribute may be present and empty
            L[r.choice(['label', 'email', 'license'])] = ''
        if self.chance(0.5):
            L['url'] = 'https://example.org/?a=1&b=2'
        if self.chance(0.4):
            L['citation'] = self.attr()
        if self.vt >= (1, 1) and self.chance(0.4):
            L['logo'] = self.attr()
        if base:
            L['extends'] = dict(base)
            if self.chance(0.4):
                L['extends']['url'] = 'https://base.example/'
        if self.vt >= (1, 1) and self.chance(0.4):
            L['requires'] = [{'id': 'dep', 'version': '1'}]
            if self.chance(0.5):
                L['requires'][0]['url'] = 'https://dep.example/?x=1&y=2'
            if self.chance(0.3):
                L['requires'].append({'id': 'dep2', 'version': '2.0'})
        p = lid
        # synsets
        nsyn = r.randint(1, size)
        synsets = []
        ilis = iter(['i1', 'i2', 'in', '', 'i3', 'in', ''])
        for k in range(nsyn):
            ss = {'id': f'{p}-s{k + 1}', 'ili': next(ilis) if self.chance(0.8) else '',
                  'partOfSpeech': r.choice(['n', 'v', 'a', 's', 'r']), 'meta': self.meta()}
            if self.chance(0.15):
                del ss['partOfSpeech']
            if ss['ili'] == 'in' and self.chance(0.7) or ss['ili'] not in ('', 'in') and self.chance(0.15):
                ss['ili_definition'] = {'text': self.text(), 'meta': self.meta()}
            if self.chance(0.3):
                ss['lexicalized'] = self.chance(0.5)
            if self.vt >= (1, 1) and self.chance(0.4):
                ss['lexfile'] = r.choice(['noun.animal', 'verb.motion', self.attr()])
            synsets.append(ss)
        # entries and senses
        entries = []
        all_senses = []
        nent = r.randint(1, size)
        for k in range(nent):
            eid = f'{p}-w{k + 1}'
            pos = r.choice(['n', 'v', 'a'])
            lemma = {'writtenForm': r.choice(['cat', 'Dog', 'résumé', 'ice cream', '猫', self.attr()]),
                     'partOfSpeech': pos}
            if self.chance(0.3):
                lemma['script'] = r.choice(['Latn', 'Hani'])
            self.form_children(lemma)
            e = {'id': eid, 'meta': self.meta(), 'lemma': lemma}
            forms = []
            for j in range(r.choice([0, 0, 1, 2, 3])):
                f = {'writtenForm': f'{lemma["writtenForm"]}-f{j}'}
                if self.vt >= (1, 1) and self.chance(0.5):
                    f['id'] = f'{eid}-f{j}'
                if self.chance(0.3):
                    f['script'] = r.choice(['Latn', 'Cyrl'])
                self.form_children(f)
                forms.append(f)
            if forms:
                e['forms'] = forms
            senses = []
            for j in range(r.choice([0, 1, 1, 2, 3])):
                s = {'id': f'{eid}-{j + 1}', 'synset': r.choice(synsets)['id'], 'meta': self.meta()}
                if self.chance(0.3):
                    s['lexicalized'] = self.chance(0.5)
                if self.chance(0.3):
                    s['adjposition'] = r.choice(['a', 'p', 'ip'])
                senses.append(s)
                all_senses.append(s)
            if senses:
                e['senses'] = senses
            entries.append(e)
        # relations, examples, counts, definitions
        for s in all_senses:
            rels = []
            for _ in range(r.choice([0, 0, 1, 2])):
                if self.chance(0.7):
                    rels.append({'relType': r.choice(['antonym', 'derivation', 'also', 'my_rel']),
                                 'target': r.choice(all_senses)['id'], 'meta': self.meta(0.3)})
                else:
                    rels.append({'relType': r.choice(['domain_topic', 'exemplifies']),
                                 'target': r.choice(synsets)['id'], 'meta': self.meta(0.3)})
            if rels:
                s['relations'] = rels
            exs = [self.example() for _ in range(r.choice([0, 0, 1, 2]))]
            if exs:
                s['examples'] = exs
            cnts = [{'value': r.choice([0, 1, 7, 12345]), 'meta': self.meta(0.3)}
                    for _ in range(r.choice([0, 0, 1, 2]))]
            if cnts:
                s['counts'] = cnts
        for ss in synsets:
            defs = []
            for _ in range(r.choice([0, 1, 1, 2])):
                d = {'text': self.text(), 'meta': self.meta(0.3)}
                if self.chance(0.4):
                    d['language'] = r.choice(['en', 'de'])
                if all_senses and self.chance(0.3):
                    d['sourceSense'] = r.choice(all_senses)['id']
                defs.append(d)
            if defs:
                ss['definitions'] = defs
            rels = [{'relType': r.choice(['hypernym', 'hyponym', 'also', 'similar', 'my_rel']),
                     'target': r.choice(synsets)['id'], 'meta': self.meta(0.3)}
                    for _ in range(r.choice([0, 0, 1, 2, 3]))]
            if rels:
                ss['relations'] = rels
            exs = [self.example() for _ in range(r.choice([0, 0, 1, 2]))]
            if exs:
                ss['examples'] = exs
            if self.vt >= (1, 1) and self.chance(0.5):
                mem = [s['id'] for s in all_senses if s['synset'] == ss['id']]
                r.shuffle(mem)
                if mem:
                    ss['members'] = mem
        # syntactic behaviours
        verbs = [e for e in entries if e.get('senses')]
        if self.vt >= (1, 1):
            if verbs and self.chance(0.6):
                frames = []
                for k in range(r.randint(1, 3)):
                    frames.append({'id': f'{p}-sb{k + 1}',
                                   'subcategorizationFrame': f'Somebody ----s frame {k} <&>'})
                L['frames'] = frames
                for e in verbs:
                    for s in e['senses']:
                        if self.chance(0.5):
                            s['subcat'] = [f['id'] for f in r.sample(frames, r.randint(1, len(frames)))]
        else:
            # WN-LMF 1.0: frames on entries; the same few frame strings recur on several
            # entries, with and without an explicit list of senses
            pool = ['Somebody ----s frame 0 <&>', 'Somebody ----s frame 1 <&>', 'Something ----s frame 2']
            for e in verbs:
                if self.chance(0.8):
                    fr = []
                    for text in r.sample(pool, r.randint(1, 3)):
                        f = {'subcategorizationFrame': text}
                        if self.chance(0.3):
                            f['senses'] = [s['id'] for s in r.sample(e['senses'], r.randint(1, len(e['senses'])))]
                            # (the order of the list is the document's: for every other entry it
                            # is made descending, which no sorting writer reproduces)
                            if len(f['senses']) > 1 and zlib.crc32(e['id'].encode()) % 2:
                                f['senses'].sort(reverse=True)
                        fr.append(f)
                    e['frames'] = fr
        L['entries'] = entries
        L['synsets'] = synsets
        if base_doc is not None:
            self.extend(L, base_doc)
        return L

    def example(self):
        ex = {'text': self.text(), 'meta': self.meta(0.4)}
        if self.chance(0.4):
            ex['language'] = self.r.choice(['en', 'ja'])
        return ex

    def form_children(self, f):
        r = self.r
        if self.vt >= (1, 1):
            prons = []
            for _ in range(r.choice([0, 0, 1, 2])):
                p = {'text': r.choice(['kæt', 'dɒɡ', self.text(), ''])}
                if self.chance(0.4):
                    p['variety'] = r.choice(['GB', 'US'])
                if self.chance(0.4):
                    p['notation'] = 'ipa'
                if self.chance(0.4):
                    p['phonemic'] = self.chance(0.5)
                if self.chance(0.3):
                    p['audio'] = 'https://audio.example/a.ogg?x=1&y=2'
                prons.append(p)
            if prons:
                f['pronunciations'] = prons
        tags = [{'text': self.text() if self.chance(0.85) else '', 'category': r.choice(['number', 'tense', self.attr()])}
                for _ in range(r.choice([0, 0, 1, 2]))]
        if tags:
            f['tags'] = tags

    def extend(self, L, B):
        """add the documented extension patterns to extension lexicon L of base B"""
        r = self.r
        bsyn = [s for s in B.get('synsets', []) if not s.get('external')]
        bent = [e for e in B.get('entries', []) if not e.get('external')]
        own_syn = [s for s in L['synsets']]
        own_senses = [s for e in L['entries'] for s in e.get('senses', [])]
        ext_entries = []
        ext_syn = {}

        def esyn(sid):
            return ext_syn.setdefault(sid, {'id': sid, 'external': True})
        chosen = r.sample(bent, min(len(bent), r.randint(1, 2)))
        # (entries whose further forms carry ids are rare; make sure ExternalForm gets its share)
        with_ids = [e for e in bent if any(f.get('id') for f in e.get('forms', [])) and e not in chosen]
        if with_ids and self.chance(0.7):
            chosen.append(r.choice(with_ids))
        for be in chosen:
            ee = {'id': be['id'], 'external': True}
            if self.chance(0.45):
                lem = {'external': True}
                self.form_children(lem)
                ee['lemma'] = lem
            forms = []
            for bf in be.get('forms', []):
                if bf.get('id') and self.chance(0.75):
                    xf = {'id': bf['id'], 'external': True}
                    self.form_children(xf)
                    forms.append(xf)
            if self.chance(0.5):
                # (a new form without tags / pronunciations: children of a new form on an
                # external entry are not among the documented extension patterns, and the
                # pinned code attaches them to the base form of equal rank - see DESIGN.md)
                nf = {'writtenForm': f'{be["id"]}-newform', 'id': f'{L["id"]}-{be["id"]}-nf'}
                forms.append(nf)
            if forms:
                ee['forms'] = forms
            senses = []
            for bs in be.get('senses', []):
                if self.chance(0.6):
                    xs = {'id': bs['id'], 'external': True}
                    if own_senses and self.chance(0.6):
                        xs['relations'] = [{'relType': 'similar', 'target': r.choice(own_senses)['id'],
                                            'meta': self.meta(0.3)}]
                    if self.chance(0.5):
                        xs['examples'] = [self.example()]
                    if self.chance(0.5):
                        xs['counts'] = [{'value': r.randint(1, 99), 'meta': self.meta(0.3)}]
                    senses.append(xs)
            if self.chance(0.6) and (bsyn or own_syn):
                tgt = r.choice(bsyn + own_syn)
                if tgt in bsyn:
                    esyn(tgt['id'])
                ns = {'id': f'{L["id"]}-{be["id"]}-ns', 'synset': tgt['id'], 'meta': self.meta()}
                if self.chance(0.5):
                    ns['adjposition'] = r.choice(['a', 'p', 'ip'])
                if self.chance(0.4):
                    ns['lexicalized'] = self.chance(0.5)
                if self.chance(0.4):
                    ns['examples'] = [self.example()]
                senses.append(ns)
            if senses:
                ee['senses'] = senses
            ext_entries.append(ee)
        for bs in r.sample(bsyn, min(len(bsyn), r.randint(1, 2))):
            xs = esyn(bs['id'])
            if self.chance(0.6):
                xs['definitions'] = [{'text': self.text(), 'meta': self.meta(0.3)}]
            if own_syn and self.chance(0.6):
                xs['relations'] = [{'relType': 'hyponym', 'target': r.choice(own_syn)['id'],
                                    'meta': self.meta(0.3)}]
            if self.chance(0.5):
                xs['examples'] = [self.example()]
        # own synsets may point to base synsets
        for ss in own_syn:
            if bsyn and self.chance(0.5):
                t = r.choice(bsyn)
                esyn(t['id'])
                ss.setdefault('relations', []).append({'relType': 'hypernym', 'target': t['id'],
                                                       'meta': None})
        L['entries'] = ext_entries + L['entries']
        L['synsets'] = list(ext_syn.values()) + L['synsets']


def random_resource(rng, version, adversarial=True, nlex=None, extension=None, size=3) -> dict:
    g = Gen(rng, version, adversarial)
    nlex = nlex or rng.choice([1, 1, 2])
    lexs = []
    for k in range(nlex):
        lexs.append(g.lexicon(f'lx{k + 1}', rng.choice(['1', '2.0', '1.0+b']), size=size))
    res = {'lmf_version': version, 'lexicons': lexs}
    if extension is None:
        extension = g.vt >= (1, 1) and rng.random() < 0.4
    if extension and g.vt >= (1, 1):
        b = lexs[0]
        x = g.lexicon('ext1', '1', base={'id': b['id'], 'version': b['version']}, base_doc=b, size=2)
        res['lexicons'].append(x)
    return res


# ---------------------------------------------------------------------------
# Sem: the semantic normal form as relational tables
# ---------------------------------------------------------------------------

def _a(v):
    """absent or empty -> '~'"""
    if v is None or v == '' or v == []:
        return ABSENT
    return v


def _meta(m):
    if not m:
        return ABSENT
    # (an attribute given with an empty value is still given: status="" is reported as
    # {'status': ''}; only a metadata element with no attribute at all is absent)
    d = {k: str(v) for k, v in m.items() if v is not None}
    return json.dumps(d, sort_keys=True, ensure_ascii=False) if d else ABSENT


def _join(xs):
    """id lists (subcat, members, frame senses) stay sequences; absent = empty"""
    return list(xs) if xs else []


def flat(res: dict) -> dict:
    T = {k: [] for k in ('lex', 'req', 'entry', 'form', 'pron', 'tag', 'sense', 'srel', 'sex',
                         'count', 'eframe', 'synset', 'def', 'yrel', 'yex', 'lframe')}

    def formkids(li, ei, fi, f):
        for k, p in enumerate(f.get('pronunciations', [])):
            T['pron'].append([li, ei, fi, k, p['text'], _a(p.get('variety')), _a(p.get('notation')),
                              bool(p.get('phonemic', True)), _a(p.get('audio'))])
        for k, t in enumerate(f.get('tags', [])):
            T['tag'].append([li, ei, fi, k, t['text'], t['category']])
    for li, L in enumerate(res['lexicons']):
        ext = L.get('extends') or {}
        T['lex'].append([li, 'LexiconExtension' if ext else 'Lexicon', L['id'], L['version'],
                         L['label'], L['language'], L['email'], L['license'], _a(L.get('url')),
                         _a(L.get('citation')), _a(L.get('logo')), _meta(L.get('meta')),
                         _a(ext.get('id')), _a(ext.get('version')), _a(ext.get('url'))])
        for k, q in enumerate(L.get('requires', [])):
            T['req'].append([li, k, q['id'], q['version'], _a(q.get('url'))])
        for ei, e in enumerate(L.get('entries', [])):
            lem = e.get('lemma')
            T['entry'].append([li, ei, e['id'], bool(e.get('external')), _meta(e.get('meta')),
                               ABSENT if lem is None else ('ext' if lem.get('external') else 'own'),
                               _a((lem or {}).get('writtenForm')), _a((lem or {}).get('script')),
                               _a((lem or {}).get('partOfSpeech'))])
            if lem is not None:
                formkids(li, ei, 0, lem)
            for fi, f in enumerate(e.get('forms', []), 1):
                T['form'].append([li, ei, fi, bool(f.get('external')), _a(f.get('id')),
                                  _a(f.get('writtenForm')), _a(f.get('script'))])
                formkids(li, ei, fi, f)
            for si, s in enumerate(e.get('senses', [])):
                T['sense'].append([li, ei, si, bool(s.get('external')), s['id'], _a(s.get('synset')),
                                   _meta(s.get('meta')), bool(s.get('lexicalized', True)),
                                   _a(s.get('adjposition')), _join(s.get('subcat'))])
                for k, r in enumerate(s.get('relations', [])):
                    T['srel'].append([li, ei, si, k, r['relType'], r['target'], _meta(r.get('meta'))])
                for k, x in enumerate(s.get('examples', [])):
                    T['sex'].append([li, ei, si, k, x['text'], _a(x.get('language')), _meta(x.get('meta'))])
                for k, c in enumerate(s.get('counts', [])):
                    T['count'].append([li, ei, si, k, c['value'], _meta(c.get('meta'))])
            for k, f in enumerate(e.get('frames', [])):
                T['eframe'].append([li, ei, k, _a(f.get('id')), f['subcategorizationFrame'],
                                    _join(f.get('senses'))])
        for yi, y in enumerate(L.get('synsets', [])):
            idf = y.get('ili_definition')
            T['synset'].append([li, yi, bool(y.get('external')), y['id'], y.get('ili', ABSENT) if not y.get('external') else ABSENT,
                                _a(y.get('partOfSpeech')), _meta(y.get('meta')),
                                bool(y.get('lexicalized', True)), _join(y.get('members')),
                                _a(y.get('lexfile')),
                                ABSENT if not idf else idf['text'], ABSENT if not idf else _meta(idf.get('meta'))])
            for k, d in enumerate(y.get('definitions', [])):
                T['def'].append([li, yi, k, d['text'], _a(d.get('language')), _a(d.get('sourceSense')),
                                 _meta(d.get('meta'))])
            for k, r in enumerate(y.get('relations', [])):
                T['yrel'].append([li, yi, k, r['relType'], r['target'], _meta(r.get('meta'))])
            for k, x in enumerate(y.get('examples', [])):
                T['yex'].append([li, yi, k, x['text'], _a(x.get('language')), _meta(x.get('meta'))])
        for k, f in enumerate(L.get('frames', [])):
            T['lframe'].append([li, k, _a(f.get('id')), f['subcategorizationFrame'], _join(f.get('senses'))])
    return T
