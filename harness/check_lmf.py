"""C01 C02 C03 C20 (WN-LMF engine).  Model: spec/WnLmf.tla."""
from __future__ import annotations

import copy
import random

from harness import docs
from harness.core import Verdict, tlc_model, tlc_judge, run_driver, seed, NCPU

VERSIONS = ['1.0', '1.1', '1.2', '1.3']


def run_cases(mode, cases, per=None):
    per = per or max(1, len(cases) // (NCPU * 3))
    jobs = [{'mode': mode, 'cases': cases[k:k + per]} for k in range(0, len(cases), per)]
    res = run_driver('drv_lmf.py', jobs, timeout=3000)
    recs = []
    for j, r in zip(jobs, res):
        if r is None or 'obs' not in r:
            recs.extend({'id': c['id'], 'timeout': True} for c in j['cases'])
        else:
            recs.extend(r['obs'])
    return recs


def add_preserve(res, rng):
    """a copy of the resource whose text keeps odd white space under xml:space="preserve" """
    f = copy.deepcopy(res)
    n = 0
    for L in f['lexicons']:
        for y in L.get('synsets', []):
            for d in y.get('definitions', []) + y.get('examples', []):
                if rng.random() < 0.5:
                    d['text'] = '  ' + d['text'] + ' \n two  spaces '
                    d['_preserve'] = True
                    n += 1
    return f, n


def c02(tier: str) -> int:
    v = Verdict('C02', tier)
    thorough = tier == 'thorough'
    v.assumptions = [
        'resources are compared in semantic normal form (harness/docs.py flat: empty = absent, defaults explicit, '
        'metadata as canonical JSON, order by index columns); Project is evaluated by TLC',
        'byte-level escaping is exercised through adversarial payloads, not modelled',
        'WN-LMF 1.0 cannot express lexicon extensions: nothing is claimed for them there']
    v.add_model('MC_Lmf (Project idempotent / monotone / identity on expressible documents)', tlc_model('MC_Lmf'))
    rng = random.Random(seed() + 2)
    cases = []
    n = 1500 if thorough else 160
    for k in range(n):
        ver = rng.choice(VERSIONS)
        res = docs.random_resource(rng, ver, adversarial=rng.random() < 0.8)
        # new and external children of an ExternalLexicalEntry / the entries and synsets of
        # an extension in any order (the order of the loader's lists is part of the resource)
        for L in res['lexicons']:
            if L.get('extends') and rng.random() < 0.7:
                for e in L['entries']:
                    if e.get('external'):
                        for key in ('forms', 'senses'):
                            if len(e.get(key, [])) > 1:
                                rng.shuffle(e[key])
                if rng.random() < 0.5:
                    rng.shuffle(L['entries'])
                    rng.shuffle(L['synsets'])
        if len(res['lexicons']) > 1 and rng.random() < 0.4:
            rng.shuffle(res['lexicons'])       # (an extension may precede a plain lexicon)
        c = {'id': k + 1, 'res': res, 'versions': VERSIONS}
        if rng.random() < 0.25:
            c['foreign'], npres = add_preserve(res, rng)
            c['preserve'] = npres > 0
        cases.append(c)
    # a few 1.0 documents that certainly have an entry-level frame whose list of senses is not
    # in ascending order (rare in the general stream: none at all for some seeds)
    r2 = random.Random(seed() * 31 + 2)
    want = 12 if thorough else 5
    while want:
        res = docs.random_resource(r2, '1.0', adversarial=r2.random() < 0.5, size=4)
        if any(len(f.get('senses', [])) > 1 and f['senses'] != sorted(f['senses'])
               for L in res['lexicons'] for e in L['entries'] for f in e.get('frames', [])):
            cases.append({'id': len(cases) + 1, 'res': res, 'versions': VERSIONS})
            want -= 1
    recs = run_cases('roundtrip', cases)
    jd = tlc_judge('Judge_C02', recs, cfg='Judge.cfg', shards=NCPU)
    v.add_judgement('Judge_C02', jd, {x['id']: x for x in recs}, nontrivial=len(cases))
    v.cov['round_trips'] = sum(len(x.get('rt', [])) for x in recs)
    v.cov['rule'] = ('random resources in loader normal form written for a random source version (1-2 lexicons, '
                     'optional extension with all documented External* patterns, every optional attribute / child '
                     'present or absent, metadata on every element that allows it, adversarial attribute and text '
                     'payloads) x 4 target versions; plus foreign files incl. xml:space="preserve"; every resource '
                     'is non-trivial')
    for x in recs[:1]:
        v.sample({'src_version': x.get('src_version'), 'lex': (x.get('src') or {}).get('lex'),
                  'sense_rows': (x.get('src') or {}).get('sense', [])[:3]})
    return v.finish()


def c20(tier: str) -> int:
    v = Verdict('C20', tier)
    thorough = tier == 'thorough'
    v.assumptions = [
        'well-formedness in general is expat\'s business; the listed single-fault classes are generated',
        'a base + extension document is added to an empty database, so the extension is skipped by design',
        'flat(): scan results are compared with the lexicon rows of the full load (label "~" when empty)']
    v.add_model('MC_Accepts (acceptance rules are total and consistent on the mutation alphabet)',
                tlc_model('MC_Accepts'))
    rng = random.Random(seed() + 20)
    cases = []
    for k in range(400 if thorough else 48):
        ver = rng.choice(VERSIONS)
        res = docs.random_resource(rng, ver, adversarial=rng.random() < 0.7,
                                   extension=rng.random() < 0.45)
        if len(res['lexicons']) > 1 and rng.random() < 0.4:
            rng.shuffle(res['lexicons'])       # scan and load must agree on the order, whatever it is
        cases.append({'id': k + 1, 'res': res, 'seed': rng.randrange(10 ** 9), 'per_kind': 3 if thorough else 2})
    # two documents that hold nothing but an extension (its base is in no file and not
    # installed): every run then meets the listed finding DevAddSkipsWithoutParsing - add()
    # returns at "nothing to do" without parsing, whatever is wrong with the rest of the file
    r2 = random.Random(seed() * 37 + 20)
    want = 6 if thorough else 2
    while want:
        res = docs.random_resource(r2, r2.choice(['1.1', '1.2', '1.3']), adversarial=r2.random() < 0.5,
                                   extension=True)
        ext = [L for L in res['lexicons'] if L.get('extends')]
        if ext:
            res['lexicons'] = ext[:1]
            cases.append({'id': len(cases) + 1, 'res': res, 'seed': r2.randrange(10 ** 9),
                          'per_kind': 3 if thorough else 2})
            want -= 1
    recs = run_cases('mutants', cases)
    jd = tlc_judge('Judge_C20', recs, cfg='Judge.cfg', shards=NCPU)
    v.add_judgement('Judge_C20', jd, {x['id']: x for x in recs},
                    nontrivial=sum(1 for x in recs if x.get('m', {}).get('kind') not in (None, 'none')))
    kinds = {}
    for x in recs:
        k = x.get('m', {}).get('kind', '?')
        kinds[k] = kinds.get(k, 0) + 1
    v.cov['mutations_by_kind'] = kinds
    v.cov['rule'] = ('valid generated documents of every version (adversarial payloads in id / version / label) x '
                     'single-fault mutations at sampled positions: required / optional attribute removed, element '
                     'renamed, element of a later version inserted, single-valued / list child duplicated, end tag '
                     'removed / mismatched, file cut inside a start tag / truncated, header line removed / altered / '
                     'unsupported version / blank first line, quoting style and attribute order changed; '
                     'non-trivial = every record but the unmutated ones')
    for x in recs[3:6]:
        v.sample({'v': x.get('v'), 'm': x.get('m'), 'load': x.get('load'), 'add': x.get('add'),
                  'is_lmf': x.get('is_lmf'), 'scan': x.get('scan')})
    return v.finish()


def c01(tier: str) -> int:
    v = Verdict('C01', tier)
    thorough = tier == 'thorough'
    v.assumptions = [
        'strings are atoms for TLC: character fidelity rests on adversarial payloads compared by exact equality',
        'example language / metadata and definitions beyond the first are not exposed by the public API '
        '(they are covered through export in C03 and the table dump in C05)',
        'content that extensions contribute to base entities is checked on relational worlds in C04 / C10 / C11']
    v.add_model('MC_Lmf (the document model)', tlc_model('MC_Lmf'))
    rng = random.Random(seed() + 1)
    cases = []
    n = 1500 if thorough else 170
    for k in range(n):
        ver = rng.choice(VERSIONS)
        res = docs.random_resource(rng, ver, adversarial=rng.random() < 0.8,
                                   size=rng.choice([3, 3, 5]))
        c = {'id': k + 1, 'res': res}
        if rng.random() < 0.5:
            c['batch'] = rng.choice([1, 2, 3])
        if rng.random() < 0.3:
            c['writer'] = {'quote': "'"}
        cases.append(c)
    recs = run_cases('content', cases)
    jd = tlc_judge('Judge_C01', recs, cfg='Judge.cfg', shards=NCPU)
    v.add_judgement('Judge_C01', jd, {x['id']: x for x in recs}, nontrivial=len(recs))
    v.cov['rule'] = ('random valid resources of every LMF version (1-2 lexicons + optional extension, every optional '
                     'attribute / child present or absent, metadata everywhere, adversarial Unicode / XML-special '
                     'payloads in attribute values and text), added with BATCH_SIZE in {1, 2, 3, 1000}; every '
                     'non-extension lexicon is walked through the public API; every lexicon is non-trivial')
    for x in recs[:1]:
        v.sample({'spec': x.get('spec'), 'words': (x.get('api') or {}).get('aword'),
                  'forms': (x.get('api') or {}).get('aform', [])[:4]})
    return v.finish()


def c03(tier: str) -> int:
    v = Verdict('C03', tier)
    thorough = tier == 'thorough'
    v.assumptions = [
        'the order of relations of a sense / synset in the export is not compared; frame-sense links are compared as '
        'links, whatever syntax (entry-level frames, lexicon-level frames with subcat) carries them',
        'ILIDefinition is generated for proposed ILIs only (a definition on an existing ILI is W304 "spurious")',
        'observational identity after re-import = equal digests of everything the public API reports '
        '(harness/apiobs.py), claimed when the export version can express the lexicon']
    v.add_model('MC_Lmf (Project)', tlc_model('MC_Lmf'))
    rng = random.Random(seed() + 3)
    cases = []
    for k in range(900 if thorough else 110):
        ver = rng.choice(VERSIONS)
        res = docs.random_resource(rng, ver, adversarial=rng.random() < 0.8, extension=False,
                                   nlex=rng.choice([1, 1, 2]))
        for L in res['lexicons']:
            for y in L['synsets']:
                if y['ili'] != 'in':
                    y.pop('ili_definition', None)
        cases.append({'id': k + 1, 'res': res, 'versions': VERSIONS})
    recs = run_cases('export', cases)
    jd = tlc_judge('Judge_C03', recs, cfg='Judge.cfg', shards=NCPU)
    v.add_judgement('Judge_C03', jd, {x['id']: x for x in recs}, nontrivial=len(cases))
    v.cov['exports'] = sum(len(x.get('exports', [])) for x in recs)
    v.cov['rule'] = ('random valid non-extension resources (1-2 lexicons per export, every source version, every optional '
                     'feature, adversarial payloads) x 4 export versions; each export is loaded and re-added to an empty '
                     'database; every resource is non-trivial')
    for x in recs[:1]:
        v.sample({'src_version': x.get('src_version'), 'lex': (x.get('src') or {}).get('lex'),
                  'exports': [[t['v'], t['st'], t['readd']] for t in x.get('exports', [])]})
    return v.finish()
