"""C01 C02 C03 C20 (WN-LMF engine).  Model: spec/WnLmf.tla."""
from __future__ import annotations

import copy
import random

from harness import docs
from harness.core import Verdict, tlc_model, tlc_judge, run_driver, seed, NCPU

VERSIONS = ['1.0', '1.1', '1.2', '1.3']


def run_cases(mode, cases, per=None):
    per = per or max(1, len(cases) // (NCPU * 3))
    jobs = [{'mode': mode, 'cases': cases[k:k + per]} for k in range(0, len(cases), per)]
    res = run_driver('drv_lmf.py', jobs, timeout=3000)
    recs = []
    for j, r in zip(jobs, res):
        if r is None or 'obs' not in r:
            recs.extend({'id': c['id'], 'timeout': True} for c in j['cases'])
        else:
            recs.extend(r['obs'])
    return recs


def add_preserve(res, rng):
    """a copy of the resource whose text keeps odd white space under xml:space="preserve" """
    f = copy.deepcopy(res)
    n = 0
    for L in f['lexicons']:
        for y in L.get('synsets', []):
            for d in y.get('definitions', []) + y.get('examples', []):
                if rng.random() < 0.5:
                    d['text'] = '  ' + d['text'] + ' \n two  spaces '
                    d['_preserve'] = True
                    n += 1
    return f, n


def c02(tier: str) -> int:
    v = Verdict('C02', tier)
    thorough = tier == 'thorough'
    v.assumptions = [
        'resources are compared in semantic normal form (harness/docs.py flat: empty = absent, defaults explicit, '
        'metadata as canonical JSON, order by index columns); Project is evaluated by TLC',
        'byte-level escaping is exercised through adversarial payloads, not modelled',
        'WN-LMF 1.0 cannot express lexicon extensions: nothing is claimed for them there']
    v.add_model('MC_Lmf (Project idempotent / monotone / identity on expressible documents)', tlc_model('MC_Lmf'))
    rng = random.Random(seed() + 2)
    cases = []
    n = 1500 if thorough else 160
    for k in range(n):
        ver = rng.choice(VERSIONS)
        res = docs.random_resource(rng, ver, adversarial=rng.random() < 0.8)
        c = {'id': k + 1, 'res': res, 'versions': VERSIONS}
        if rng.random() < 0.25:
            c['foreign'], npres = add_preserve(res, rng)
            c['preserve'] = npres > 0
        cases.append(c)
    recs = run_cases('roundtrip', cases)
    jd = tlc_judge('Judge_C02', recs, cfg='Judge.cfg', shards=NCPU)
    v.add_judgement('Judge_C02', jd, {x['id']: x for x in recs}, nontrivial=len(cases))
    v.cov['round_trips'] = sum(len(x.get('rt', [])) for x in recs)
    v.cov['rule'] = ('random resources in loader normal form written for a random source version (1-2 lexicons, '
                     'optional extension with all documented External* patterns, every optional attribute / child '
                     'present or absent, metadata on every element that allows it, adversarial attribute and text '
                     'payloads) x 4 target versions; plus foreign files incl. xml:space="preserve"; every resource '
                     'is non-trivial')
    for x in recs[:1]:
        v.sample({'src_version': x.get('src_version'), 'lex': (x.get('src') or {}).get('lex'),
                  'sense_rows': (x.get('src') or {}).get('sense', [])[:3]})
    return v.finish()
