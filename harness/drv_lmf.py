"""Driver for the WN-LMF engine (C01 C02 C03 C20): resources in normal form are
written, loaded, dumped, exported, mutated; the observations are the semantic
normal forms (harness/docs.py flat) and digests."""
from __future__ import annotations

import copy
import hashlib
import json
from pathlib import Path

import wn
from wn import lmf

from harness import lmfgen, docs
from harness.wnenv import fresh_db, base_dir, main_loop, exc_name, JobTimeout, limit


def sha(p: Path) -> str:
    return hashlib.sha256(p.read_bytes()).hexdigest()[:16]


def roundtrip(case):
    """C02: dump(R, v) -> load, for every version; dump(load(F)) fixed point"""
    res = case['res']
    d = base_dir()
    out = {'id': case['id'], 'src': docs.flat(res), 'src_version': res['lmf_version'], 'rt': []}
    for v in case['versions']:
        r2 = copy.deepcopy(res)
        r2['lmf_version'] = v
        before = json.dumps(r2, sort_keys=True, default=str)
        p = d / f'rt-{v}.xml'
        row = {'v': v}
        try:
            lmf.dump(r2, p)
            row['arg_unchanged'] = json.dumps(r2, sort_keys=True, default=str) == before
            got = lmf.load(p, progress_handler=None)
            row['st'] = 'ok'
            row['got'] = docs.flat(got)
            row['got_version'] = got['lmf_version']
            row['is_lmf'] = lmf.is_lmf(p)
            # dump(load(dump(R))) reproduces the bytes
            p2 = d / f'rt2-{v}.xml'
            lmf.dump(got, p2)
            row['fixed'] = sha(p) == sha(p2)
        except JobTimeout:
            raise
        except Exception as e:
            row.update({'st': 'exc:' + exc_name(e), 'got': docs.flat({'lexicons': []}),
                        'got_version': '~', 'is_lmf': False, 'fixed': False,
                        'arg_unchanged': row.get('arg_unchanged', True), 'msg': str(e)[:200]})
        out['rt'].append(row)
    # a file written by somebody else (our materialiser, incl. xml:space="preserve"):
    # dump(load(F)) must be a fixed point of dump . load
    f = d / 'foreign.xml'
    f.write_text(lmfgen.to_xml(case.get('foreign', res)), encoding='utf-8')
    try:
        a = lmf.load(f, progress_handler=None)
        f1 = d / 'f1.xml'
        lmf.dump(a, f1)
        b = lmf.load(f1, progress_handler=None)
        f2 = d / 'f2.xml'
        lmf.dump(b, f2)
        out['foreign'] = {'st': 'ok', 'fixed': sha(f1) == sha(f2), 'first': docs.flat(a),
                          'second': docs.flat(b)}
    except JobTimeout:
        raise
    except Exception as e:
        out['foreign'] = {'st': 'exc:' + exc_name(e), 'fixed': False,
                          'first': docs.flat({'lexicons': []}), 'second': docs.flat({'lexicons': []})}
    out['preserve'] = bool(case.get('preserve'))
    return out


def handle(job):
    outs = []
    for case in job['cases']:
        try:
            with limit(case.get('timeout', 60)):
                if job['mode'] == 'roundtrip':
                    outs.append(roundtrip(case))
                else:
                    raise ValueError(job['mode'])
        except JobTimeout:
            outs.append({'id': case['id'], 'timeout': True})
    return {'obs': outs}


if __name__ == '__main__':
    main_loop(handle, per_job_timeout=3600)
