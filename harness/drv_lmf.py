"""Driver for the WN-LMF engine (C01 C02 C03 C20): resources in normal form are
written, loaded, dumped, exported, mutated; the observations are the semantic
normal forms (harness/docs.py flat) and digests."""
from __future__ import annotations

import copy
import hashlib
import json
from pathlib import Path

import wn
from wn import lmf

from harness import lmfgen, docs
from harness.wnenv import fresh_db, base_dir, main_loop, exc_name, JobTimeout, limit


def sha(p: Path) -> str:
    return hashlib.sha256(p.read_bytes()).hexdigest()[:16]


def roundtrip(case):
    """C02: dump(R, v) -> load, for every version; dump(load(F)) fixed point"""
    res = case['res']
    d = base_dir()
    out = {'id': case['id'], 'src': docs.flat(res), 'src_version': res['lmf_version'], 'rt': []}
    for v in case['versions']:
        r2 = copy.deepcopy(res)
        r2['lmf_version'] = v
        before = json.dumps(r2, sort_keys=True, default=str)
        p = d / f'rt-{v}.xml'
        row = {'v': v}
        try:
            lmf.dump(r2, p)
            row['arg_unchanged'] = json.dumps(r2, sort_keys=True, default=str) == before
            got = lmf.load(p, progress_handler=None)
            row['st'] = 'ok'
            row['got'] = docs.flat(got)
            row['got_version'] = got['lmf_version']
            row['is_lmf'] = lmf.is_lmf(p)
            # dump(load(dump(R))) reproduces the bytes
            p2 = d / f'rt2-{v}.xml'
            lmf.dump(got, p2)
            row['fixed'] = sha(p) == sha(p2)
        except JobTimeout:
            raise
        except Exception as e:
            row.update({'st': 'exc:' + exc_name(e), 'got': docs.flat({'lexicons': []}),
                        'got_version': '~', 'is_lmf': False, 'fixed': False,
                        'arg_unchanged': row.get('arg_unchanged', True), 'msg': str(e)[:200]})
        out['rt'].append(row)
    # a file written by somebody else (our materialiser, incl. xml:space="preserve"):
    # dump(load(F)) must be a fixed point of dump . load
    f = d / 'foreign.xml'
    f.write_text(lmfgen.to_xml(case.get('foreign', res)), encoding='utf-8')
    try:
        a = lmf.load(f, progress_handler=None)
        f1 = d / 'f1.xml'
        lmf.dump(a, f1)
        b = lmf.load(f1, progress_handler=None)
        f2 = d / 'f2.xml'
        lmf.dump(b, f2)
        out['foreign'] = {'st': 'ok', 'fixed': sha(f1) == sha(f2), 'first': docs.flat(a),
                          'second': docs.flat(b)}
    except JobTimeout:
        raise
    except Exception as e:
        out['foreign'] = {'st': 'exc:' + exc_name(e), 'fixed': False,
                          'first': docs.flat({'lexicons': []}), 'second': docs.flat({'lexicons': []})}
    out['preserve'] = bool(case.get('preserve'))
    return out


def lexinfo(res):
    return [[L['id'], L['version'], L['label'],
             (L.get('extends') or {}).get('id', '~'), (L.get('extends') or {}).get('version', '~')]
            for L in res['lexicons']]


def mutants(case):
    """C20: single-fault mutations of a valid document"""
    import random
    from harness import mutate, storeobs
    res = case['res']
    v = res['lmf_version']
    rng = random.Random(case['seed'])
    text = lmfgen.to_xml(res)
    d = base_dir()
    base = d / 'orig.xml'
    base.write_text(text, encoding='utf-8')
    orig = docs.flat(lmf.load(base, progress_handler=None))
    muts = [({'kind': 'none', 'elem': '~', 'attr': '~'}, text),
            ({'kind': 'requote', 'elem': '~', 'attr': '~'}, lmfgen.to_xml(res, quote="'")),
            ({'kind': 'reorder', 'elem': '~', 'attr': '~'},
             lmfgen.to_xml(res, attr_order=lambda ps: list(reversed(ps))))]
    # "every file produced by dump() is accepted": the document as wn itself writes it
    try:
        dp = d / 'redump.xml'
        lmf.dump(lmf.load(base, progress_handler=None), dp)
        muts.append(({'kind': 'redump', 'elem': '~', 'attr': '~'}, dp.read_text(encoding='utf-8')))
    except JobTimeout:
        raise
    except Exception as e:
        muts.append(({'kind': 'redump', 'elem': '~', 'attr': 'dump raised ' + exc_name(e)}, ''))
    muts += mutate.mutations(text, v, rng, per_kind=case.get('per_kind', 2))
    out = []
    for k, (m, txt) in enumerate(muts):
        p = d / f'mut{k}.xml'
        p.write_text(txt, encoding='utf-8')
        r = {'id': f"{case['id']}.{k}", 'v': v, 'm': m, 'orig': orig}
        try:
            got = lmf.load(p, progress_handler=None)
            r['load'] = 'ok'
            r['loaded'] = docs.flat(got)
        except JobTimeout:
            raise
        except Exception as e:
            r['load'] = 'exc:' + exc_name(e)
            r['loaded'] = docs.flat({'lexicons': []})
        fresh_db('c20')
        storeobs.conn()
        before = storeobs.raw_sha()
        try:
            wn.add(p, progress_handler=None)
            r['add'] = 'ok'
        except JobTimeout:
            raise
        except Exception as e:
            r['add'] = 'exc:' + exc_name(e)
        r['db_unchanged'] = storeobs.raw_sha() == before
        try:
            r['is_lmf'] = bool(lmf.is_lmf(p))
            r['is_lmf_st'] = 'ok'
        except JobTimeout:
            raise
        except Exception as e:
            r['is_lmf'] = False
            r['is_lmf_st'] = 'exc:' + exc_name(e)
        try:
            sc = lmf.scan_lexicons(p)
            r['scan_st'] = 'ok'
            r['scan'] = [[i['id'], i['version'], i['label'] if i.get('label') is not None else '~',
                          (i.get('extends') or {}).get('id', '~'),
                          (i.get('extends') or {}).get('version', '~')] for i in sc]
        except JobTimeout:
            raise
        except Exception as e:
            r['scan_st'] = 'exc:' + exc_name(e)
            r['scan'] = []
        out.append(r)
    return out


def content(case):
    """C01: add the document, observe every non-extension lexicon through the API;
    an extension is added from a file of its own (after its base) and the base is
    observed again together with it"""
    import wn._add
    from harness import apiobs
    res = case['res']
    d = base_dir()
    bases = [L for L in res['lexicons'] if not L.get('extends')]
    exts = [L for L in res['lexicons'] if L.get('extends')]
    fresh_db('c01')
    old = wn._add.BATCH_SIZE
    wn._add.BATCH_SIZE = case.get('batch', old)
    out = []
    try:
        def add_part(k, part):
            p = d / f'content{k}.xml'
            p.write_text(lmfgen.to_xml({'lmf_version': res['lmf_version'], 'lexicons': part},
                                       **case.get('writer', {})), encoding='utf-8')
            try:
                wn.add(p, progress_handler=None)
                return 'ok'
            except JobTimeout:
                raise
            except Exception as e:
                return 'exc:' + exc_name(e) + ':' + str(e)[:100]
        src = docs.flat(res)
        st = add_part(0, bases) if bases else 'ok'
        recs = {}
        # every plain lexicon as the API reports it while only plain lexicons are installed
        for li, L in enumerate(res['lexicons']):
            if L.get('extends'):
                continue
            spec = f"{L['id']}:{L['version']}"
            r = {'id': f"{case['id']}.{li}", 'li': li, 'spec': spec, 'src': src, 'st': st,
                 'batch': case.get('batch', old), 'xli': -1}
            if st == 'ok':
                try:
                    r['api'] = apiobs.observe_api(spec)
                except JobTimeout:
                    raise
                except Exception as e:
                    r['st'] = 'exc-observe:' + exc_name(e) + ':' + str(e)[:100]
            recs[(L['id'], L['version'])] = r
            out.append(r)
        # then each extension (a file of its own): the base seen together with it
        for xi, X in enumerate(res['lexicons']):
            ext = X.get('extends')
            if not ext or st != 'ok':
                continue
            r = recs.get((ext['id'], ext['version']))
            if r is None or r['st'] != 'ok':
                continue
            stx = add_part(1 + xi, [X])
            if stx != 'ok':
                r['st'] = stx
                continue
            try:
                r['xli'] = xi
                r['xspec'] = f"{X['id']}:{X['version']}"
                r['xapi'] = apiobs.observe_api(r['spec'] + ' ' + r['xspec'])
                # ... and the base alone, as before: what the extension adds is not the base's
                r['bapi'] = apiobs.observe_api(r['spec'])
            except JobTimeout:
                raise
            except Exception as e:
                r['st'] = 'exc-observe:' + exc_name(e) + ':' + str(e)[:100]
    finally:
        wn._add.BATCH_SIZE = old
    return out


def export_case(case):
    """C03: add, export in every version, load the export, add it to an empty database"""
    from harness import apiobs
    res = case['res']
    d = base_dir()
    p = d / 'src.xml'
    p.write_text(lmfgen.to_xml(res), encoding='utf-8')
    d1 = fresh_db('c03a')
    out = {'id': case['id'], 'src': docs.flat(res), 'src_version': res['lmf_version'], 'exports': []}
    try:
        wn.add(p, progress_handler=None)
        out['st'] = 'ok'
    except JobTimeout:
        raise
    except Exception as e:
        out['st'] = 'exc:' + exc_name(e) + ':' + str(e)[:100]
        out['api_digest'] = '~'
        return out
    scope = ' '.join(f"{L['id']}:{L['version']}" for L in res['lexicons'])

    def digest():
        a = apiobs.observe_api(scope)
        return hashlib.sha256(json.dumps(a, sort_keys=True, ensure_ascii=False).encode()).hexdigest()[:16]
    out['api_digest'] = digest()
    # for every other resource an ILI index that defines the ILIs it uses is loaded before the
    # export: an index changes ILI statuses and definitions, never what a lexicon contains
    used = sorted({y.get('ili') for L in res['lexicons'] for y in L.get('synsets', [])
                   if y.get('ili') not in (None, '', 'in')})
    if case['id'] % 2 == 0 and used:
        ip = d / 'index.tsv'
        ip.write_text('ILI\tDefinition\n' + ''.join(f'{i}\tindex definition of {i}\n' for i in used),
                      encoding='utf-8')
        try:
            wn.add(ip, progress_handler=None)
        except JobTimeout:
            raise
        except Exception as e:
            out['st'] = 'exc:index:' + exc_name(e) + ':' + str(e)[:100]
            return out
    files = {}
    for v in case['versions']:
        row = {'v': v}
        f = d / f'export-{v}.xml'
        try:
            wn.export(wn.lexicons(lexicon=scope), f, version=v)
            got = lmf.load(f, progress_handler=None)
            row['st'] = 'ok'
            row['got'] = docs.flat(got)
            files[v] = f
        except JobTimeout:
            raise
        except Exception as e:
            row.update({'st': 'exc:' + exc_name(e) + ':' + str(e)[:100],
                        'got': docs.flat({'lexicons': []})})
        out['exports'].append(row)
    for row in out['exports']:
        row['readd'] = '~'
        row['api_digest'] = '~'
        if row['v'] in files:
            fresh_db('c03b')
            try:
                wn.add(files[row['v']], progress_handler=None)
                row['readd'] = 'ok'
                row['api_digest'] = digest()
            except JobTimeout:
                raise
            except Exception as e:
                row['readd'] = 'exc:' + exc_name(e) + ':' + str(e)[:100]
    return out


def handle(job):
    outs = []
    for case in job['cases']:
        try:
            with limit(case.get('timeout', 60)):
                if job['mode'] == 'roundtrip':
                    outs.append(roundtrip(case))
                elif job['mode'] == 'mutants':
                    outs.extend(mutants(case))
                elif job['mode'] == 'content':
                    outs.extend(content(case))
                elif job['mode'] == 'export':
                    outs.append(export_case(case))
                else:
                    raise ValueError(job['mode'])
        except JobTimeout:
            outs.append({'id': case['id'], 'timeout': True})
    return {'obs': outs}


if __name__ == '__main__':
    main_loop(handle, per_job_timeout=3600)
