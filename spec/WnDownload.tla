----------------------------- MODULE WnDownload -----------------------------
(* wn.download(project_or_url, add) (wn/_download.py) over the project      *)
(* index of WnConfig: resolve the argument to a list of mirror URLs, use a  *)
(* cached file if one exists, otherwise try the mirrors in order, then      *)
(* (optionally) add the file to the database.                               *)
(*                                                                          *)
(*   cache   url -> what the cache file of that url holds, None if no file  *)
(*   server  url -> how the server answers a GET:                           *)
(*             <<"ok", content>>  200 with that body                        *)
(*             <<"status">>       an HTTP error status (404)                *)
(*             <<"unreachable">>  the connection cannot be made             *)
(*             <<"drop">>         200, then the connection breaks mid-body  *)
(*   db      the set of contents that have been added to the database       *)
(* A content is a string; Good is the set of contents wn.add accepts.       *)
(* One call is one step here: the code holds no lock and there is nothing   *)
(* concurrent to interleave with, and its intermediate states (the empty or *)
(* partial file while a mirror is being read) are visible only to the call  *)
(* itself -- what must hold is that none of them survives the call.         *)
EXTENDS WnConfig

IsUrl(s) == (Len(s) >= 7 /\ SubSeq(s, 1, 7) = "http://")
            \/ (Len(s) >= 8 /\ SubSeq(s, 1, 8) = "https://")

\* _download(urls): the mirrors in order.  A transport failure moves on to the next
\* mirror (after removing the file just opened); an HTTP error status does not: it
\* removes the file and ends the call with httpx's own exception.
RECURSIVE Fetch(_, _, _, _, _)
Fetch(urls, k, cache, server, reqs) ==
  LET u == urls[k]  r2 == Append(reqs, u) IN
  CASE server[u][1] = "ok" ->
         [cache |-> [cache EXCEPT ![u] = server[u][2]], reqs |-> r2, res |-> Ok(u)]
    [] server[u][1] = "status" ->
         [cache |-> [cache EXCEPT ![u] = None], reqs |-> r2, res |-> Exc("HTTPStatusError")]
    [] OTHER ->
         LET c2 == [cache EXCEPT ![u] = None] IN
           IF k = Len(urls) THEN [cache |-> c2, reqs |-> r2, res |-> Exc("Error:download failed")]
           ELSE Fetch(urls, k + 1, c2, server, r2)

\* download(arg, add): [cache, db, reqs, res]
Download(idx, cache, server, db, Good, arg, add) ==
  LET cachedSet == {u \in DOMAIN cache : cache[u] # None}
      direct == IsUrl(arg)
      info == IF direct THEN Ok(None) ELSE GetInfo(idx, cachedSet, arg) IN
  IF info[1] = "exc" THEN [cache |-> cache, db |-> db, reqs |-> <<>>, res |-> info]
  ELSE
    LET urls == IF direct THEN <<arg>> ELSE info[2].resource_urls
        hit == IF direct THEN (IF arg \in cachedSet THEN arg ELSE None) ELSE info[2].cache
        got == IF hit # None THEN [cache |-> cache, reqs |-> <<>>, res |-> Ok(hit)]
               ELSE IF urls # <<>> THEN Fetch(urls, 1, cache, server, <<>>)
               ELSE [cache |-> cache, reqs |-> <<>>, res |-> Exc("Error:no urls to download")] IN
      IF got.res[1] = "exc" \/ ~add THEN [cache |-> got.cache, db |-> db, reqs |-> got.reqs, res |-> got.res]
      ELSE LET content == got.cache[got.res[2]] IN
        IF content \in Good
        THEN [cache |-> got.cache, db |-> db \cup {content}, reqs |-> got.reqs, res |-> got.res]
        \* the file stays in the cache: the next call finds it again
        ELSE [cache |-> got.cache, db |-> db, reqs |-> got.reqs, res |-> Exc("Error:could not add")]

-----------------------------------------------------------------------------
(* Facts about the design (checked on MC_Download)                          *)
\* which mirror, if any, a call without a cached file ends up using
Usable(server, u) == server[u][1] = "ok"
Transient(server, u) == server[u][1] \in {"unreachable", "drop"}
FirstUsable(urls, server) ==
  LET ks == {k \in DOMAIN urls : Usable(server, urls[k]) /\ \A j \in 1..(k - 1) : Transient(server, urls[j])}
  IN IF ks = {} THEN 0 ELSE CHOOSE k \in ks : TRUE
=============================================================================
