CONSTANTS
  Resources = {"Ra1", "Rx", "Rr", "Rax"}
  RemoveArgs = {"a:1", "*"}
  IliFiles = {"f1"}
SPECIFICATION ConcSpec
CHECK_DEADLOCK FALSE
INVARIANT CommittedCanonical
INVARIANT QuiescentAgree
INVARIANT ReaderSeesCanonical
PROPERTY WholeOperationsOnly
PROPERTY AbortRestores
PROPERTY CrashRestores
PROPERTY CommitsOnly
PROPERTY ReadIsCommitted
