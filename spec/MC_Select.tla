------------------------------ MODULE MC_Select ------------------------------
(* Bounded instance for C08: every order of addition of up to MaxLen of the   *)
(* lexicons of Universe, with the selection theorems checked on every        *)
(* specifier argument of Args and language of Langs.                         *)
EXTENDS WnSelect, Json, TLC
CONSTANT MaxLen
VARIABLE db
Universe == { [id |-> "a", version |-> "1", lang |-> "en"],
              [id |-> "a", version |-> "2", lang |-> "en"],
              [id |-> "a", version |-> "1.0-rc.1", lang |-> "en"],
              [id |-> "ab", version |-> "1.0+b", lang |-> "en"],
              [id |-> "ab", version |-> "1", lang |-> "en"],
              [id |-> "b-c", version |-> "2", lang |-> "fr-CA"] }
Atoms == {"*", "a", "ab", "zz", "b-c", "a:1", "a:2", "a:*", "*:1", "*:2", "a*", "a*:*",
          "*:1.0*", "*b*", "b-*:*", "*-*", "a:1.0-rc.1", "ab:1.0+b", "a:", ":1", "*:*", "a:1*", "**"}
Args == Atoms \cup {"a:1 ab", "a ab:*", "zz a", "a:* a", "*:2 zz", " a  ab ", "a b-c zz", "ab a*",
                    "a:2 a:1 a", "zz yy", " ", "* zz"}
Langs == {"~", "en", "fr-CA", "de"}
Specs == {SpecOf(l) : l \in Universe}

Init == db = <<>>
Next == /\ Len(db) < MaxLen
        /\ \E l \in Universe : (\A k \in DOMAIN db : db[k] # l) /\ db' = Append(db, l)
Emit == PrintT(ToJson(db))

\* the two definitions of glob matching agree (a constant-level fact)
GlobAgree == \A p \in Atoms, s \in Specs : Glob(p, s) = Glob2(p, s)
ASSUME GlobAgree
UAtoms == {"*", "a", "zz", "a:1", "a:*", "*:2", "a*", "b-*:*", "ab:1.0+b"}
\* a list selects the union of its members
UnionOfMembers == \A p, q \in UAtoms, g \in {"~", "en"} :
   Select(db, p \o " " \o q, g) = Select(db, p, g) \cup Select(db, q, g)
\* a bare id selects exactly one lexicon, the most recently added with that id
BareIsOne == \A id \in {"a", "ab", "b-c", "zz"} :
   LET have == {k \in DOMAIN db : db[k].id = id} IN
     Select(db, id, "~") = IF have = {} THEN {}
                           ELSE {CHOOSE k \in have : \A j \in have : k >= j}
\* nothing is selected that no specifier matches, and only the right language
NeverUnmatched == \A a \in Args, g \in Langs : \A k \in Select(db, a, g) :
   /\ LangOK(db[k], g)
   /\ \E n \in DOMAIN Specifiers(a) :
        LET sp == Specifiers(a)[n] IN
          Glob(IF HasChar(sp, ":") THEN sp ELSE sp \o ":*", SpecOf(db[k]))
StarIsAll == Select(db, "*", "~") = DOMAIN db
ExactIsExact == \A l \in Universe :
   Select(db, SpecOf(l), "~") = {k \in DOMAIN db : db[k] = l}
AllVersions == \A id \in {"a", "ab"} :
   Select(db, id \o ":*", "~") = {k \in DOMAIN db : db[k].id = id}
ErrorRule == \A a \in Args, g \in Langs :
   SelectError(db, a, g) <=> (Select(db, a, g) = {} /\ ~(a = "*" /\ g = "~"))
\* the pinned code's reading differs from the documented one (TLC finds the
\* counterexample when this is checked; it is not in the cfg)
DevAgrees == \A a \in Args : DevSelect(db, a, "~") = Select(db, a, "~")
=============================================================================
