INIT Init
NEXT Next
INVARIANT Judge
CHECK_DEADLOCK FALSE
