------------------------------ MODULE MC_Search ------------------------------
(* Theorems behind C09 on every lexicon of at most MaxWords words of Pool.    *)
EXTENDS WnSearch, TLC
CONSTANT MaxWords
VARIABLE W
Strs == {"cat", "Cat", "CAT", "cát", "cats", "dog", "xx"}
N == [s \in Strs |-> CASE s \in {"cat", "Cat", "CAT", "cát"} -> "cat" [] OTHER -> s]
Mk(i, p, l, fs, ss) == [id |-> i, lex |-> "L", pos |-> p, lemma |-> l, forms |-> fs, senses |-> ss]
Pool == { Mk("w1", "n", "cat", <<"cats">>, << <<"w1-1", "s1", "L">> >>),
          Mk("w2", "n", "Cat", <<>>, << <<"w2-1", "s1", "L">>, <<"w2-2", "s2", "L">> >>),
          Mk("w3", "v", "cát", <<"CAT">>, << <<"w3-1", "s3", "L">> >>),
          Mk("w4", "n", "dog", <<"cat">>, << <<"w4-1", "s2", "L">> >>),
          Mk("w5", "v", "cats", <<>>, <<>>) }
SynPos == [s \in {"s1", "s2", "s3"} |-> IF s = "s3" THEN "v" ELSE "n"]
SynOwn == [s \in {"s1", "s2", "s3"} |-> "L"]
Scope == {"L"}
Kinds == {"words", "senses", "synsets"}
Poses == {"~", "n", "v", "x"}
Lems == { {}, {<<"n", {"cat"}>>, <<"v", {"cats", "cat"}>>}, {<<"~", {"Cat"}>>} }
Init == W = {}
Next == \E w \in Pool \ W : Cardinality(W) < MaxWords /\ W' = W \cup {w}
F(k, q, p, lem, nrm, saf) == Find(k, N, W, Scope, SynPos, SynOwn, q, p, lem, nrm, saf)

\* without a lemmatizer an exactly stored (lemma) form is always found
ExactAlwaysFound == \A w \in W, p \in {"~"}, nrm \in BOOLEAN, saf \in BOOLEAN :
   /\ w.id \in F("words", w.lemma, p, {}, nrm, saf)
   /\ w.id \in F("words", w.lemma, w.pos, {}, nrm, saf)
   /\ \A f \in Rng(w.forms) : w.id \in F("words", f, "~", {}, nrm, TRUE)
\* every result really has a matching form (exact, stored-normalised, or
\* against the normalised query in the back-off)
Sound == \A q \in Strs, p \in Poses, lem \in Lems, nrm \in BOOLEAN, saf \in BOOLEAN :
   \A i \in F("words", q, p, lem, nrm, saf) :
      LET w == CHOOSE w \in W : w.id = i
          cs == Cands(q, p, lem) IN
        \E c \in cs : /\ PosOK(c[1], w.pos)
                      /\ \E f \in StoredForms(w, saf) :
                            \/ f \in c[2]
                            \/ nrm /\ (N[f] \in c[2] \/ f \in {N[x] : x \in c[2]}
                                       \/ N[f] \in {N[x] : x \in c[2]})
\* with the normalizer off only exact matches are returned
ExactOnlyWithoutNormalizer == \A q \in Strs, p \in Poses, saf \in BOOLEAN :
   F("words", q, p, {}, FALSE, saf) =
     {w.id : w \in {w \in W : PosOK(p, w.pos) /\ q \in StoredForms(w, saf)}}
\* the query is normalised only if the first pass found nothing
BackoffOnlyIfEmpty == \A q \in Strs, p \in Poses, lem \in Lems, saf \in BOOLEAN, k \in Kinds :
   LET cs == Cands(q, p, lem)
       first == UNION {Pass(k, N, W, Scope, SynPos, SynOwn, c[1], c[2], TRUE, saf) : c \in cs} IN
     first # {} => F(k, q, p, lem, TRUE, saf) = first
\* search_all_forms off: only lemmas count
LemmaOnly == \A q \in Strs, p \in Poses, nrm \in BOOLEAN :
   \A i \in F("words", q, p, {}, nrm, FALSE) :
      LET w == CHOOSE w \in W : w.id = i IN
        w.lemma = q \/ (nrm /\ (N[w.lemma] = q \/ N[w.lemma] = N[q]))
\* senses / synsets are the images of the matched words
Images == \A q \in Strs, lem \in Lems, nrm \in BOOLEAN, saf \in BOOLEAN :
   /\ F("senses", q, "~", lem, nrm, saf) =
        UNION {{s[1] : s \in Rng(w.senses)} : w \in {w \in W : w.id \in F("words", q, "~", lem, nrm, saf)}}
   /\ F("synsets", q, "~", lem, nrm, saf) =
        UNION {{s[2] : s \in Rng(w.senses)} : w \in {w \in W : w.id \in F("words", q, "~", lem, nrm, saf)}}
=============================================================================
