CONSTANT MaxWords = 3
INIT Init
NEXT Next
CHECK_DEADLOCK FALSE
INVARIANT ExactAlwaysFound
INVARIANT Sound
INVARIANT ExactOnlyWithoutNormalizer
INVARIANT BackoffOnlyIfEmpty
INVARIANT LemmaOnly
INVARIANT Images
