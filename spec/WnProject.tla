------------------------------ MODULE WnProject ------------------------------
(* What wn.add() finds at a path (wn/project.py iterpackages): resource files,   *)
(* package directories, collection directories, tar archives and compressed      *)
(* files, and when the path is refused.  A path is a tree:                       *)
(*   [k |-> "file", what |-> "lmf:<resource>" | "ili:<file>" | "other"]          *)
(*   [k |-> "gz" | "xz", of |-> <file node>]                                     *)
(*   [k |-> "dir", kids |-> <<nodes>>]                                           *)
(*   [k |-> "tar", kids |-> <<top-level nodes>>, unsafe |-> BOOLEAN]             *)
(* Found(n) is either <<"error">> or the sequence of resources that are added,   *)
(* as a set of admissible orders (directory listing order is unspecified).       *)
EXTENDS Naturals, Sequences, FiniteSets
LOCAL Rng(s) == {s[k] : k \in DOMAIN s}
IsRes(n) == n.k = "file" /\ n.what # "other"
\* (compressed files count as resources only when given directly, not inside a
\* directory: the directory scan looks at the first bytes of each file)
ResOf0(n) == IF n.k = "file" THEN n.what ELSE "other"
\* direct children of a directory that are resource files
DirResources(n) == {k \in DOMAIN n.kids : IsRes(n.kids[k])}
IsPackageDir(n) == n.k = "dir" /\ Cardinality(DirResources(n)) = 1
PackageRes(n) == n.kids[CHOOSE k \in DirResources(n) : TRUE].what
IsCollectionDir(n) == n.k = "dir" /\ \E k \in DOMAIN n.kids : IsPackageDir(n.kids[k])
Error == <<"error">>
\* the set of admissible sequences of resources (or {Error})
SetPerms(S) == {p \in [1..Cardinality(S) -> S] : \A i, j \in 1..Cardinality(S) : p[i] = p[j] => i = j}
RECURSIVE Found(_)
Found(n) ==
  IF n.k = "dir" THEN
     IF IsPackageDir(n) THEN {<<PackageRes(n)>>}
     ELSE IF IsCollectionDir(n)
     THEN LET pk == {k \in DOMAIN n.kids : IsPackageDir(n.kids[k])} IN
            {[i \in DOMAIN p |-> PackageRes(n.kids[p[i]])] : p \in SetPerms(pk)}
     ELSE {Error}
  ELSE IF n.k = "tar" THEN
     IF n.unsafe \/ Len(n.kids) # 1 THEN {Error} ELSE Found(n.kids[1])
  ELSE IF n.k \in {"gz", "xz"} THEN (IF ResOf0(n.of) = "other" THEN {Error} ELSE {<<ResOf0(n.of)>>})
  ELSE IF n.what = "other" THEN {Error} ELSE {<<n.what>>}
Refused(n) == Found(n) = {Error}
=============================================================================
