------------------------------ MODULE Judge_C17 ------------------------------
(* Trace validation for C17: recorded Morphy calls against WnMorphy.          *)
EXTENDS WnMorphy, Json, IOUtils, TLC
Recs == ndJsonDeserialize(IOEnv.TRACE_FILE)
VARIABLE i
Init == i \in 1..Len(Recs)
Next == UNCHANGED i
WordsOf(r) == {<<w[1], w[2], w[3]>> : w \in Rng(r.words)}
\* call rows: <<form, pos, initialised, st, <<pos, <<lemmas>>>> ...>>
Got(t) == {<<e[1], Rng(e[2])>> : e \in Rng(t[5])}
CallOK(words, t) ==
  /\ t[4] = "ok"
  /\ Len(t[5]) = Cardinality(Got(t))
  /\ Got(t) = IF t[3] THEN MorphyInit(words, t[1], t[2]) ELSE MorphyUninit(t[1], t[2])
\* a Wordnet with this lemmatizer finds the union of what each proposed (pos, forms) pair finds
\* (the query itself under the requested part of speech when nothing is proposed)
WordnetOK(words, t) ==
  Len(t) < 6 \/
  LET M == Got(t)
      cands == IF M = {} THEN {<<t[2], {t[1]}>>} ELSE M
      hit(w) == \E c \in cands : (c[1] = "~" \/ w[1] = c[1]) /\ (({w[2]} \cup Rng(w[3])) \cap c[2]) # {}
  IN {<<q[1], q[2]>> : q \in Rng(t[6])} = {<<w[1], w[2]>> : w \in {w \in words : hit(w)}}
Rows(S, P(_), name) == LET bad == {t \in S : ~P(t)} IN
                         IF bad = {} THEN {} ELSE {<<name, CHOOSE t \in bad : TRUE>>}
Fails(r) ==
  IF "timeout" \in DOMAIN r THEN {<<"Terminates", "-">>} ELSE
  LET words == WordsOf(r)
      P1(t) == ~t[3] \/ CallOK(words, t)
      P2(t) == t[3] \/ CallOK(words, t)
      P3(t) == t[4] # "ok" \/ WordnetOK(words, t) IN
    Rows(Rng(r.calls), P1, "InitializedMorphy") \cup Rows(Rng(r.calls), P2, "UninitializedMorphy")
    \cup Rows(Rng(r.calls), P3, "WordnetFindsUnionOfProposals")
Judge == LET r == Recs[i]  f == Fails(r) IN
  f = {} \/ PrintT(ToJson([k |-> "FAIL", id |-> r.id, c |-> f]))
=============================================================================
