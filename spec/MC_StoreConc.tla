---------------------------- MODULE MC_StoreConc ----------------------------
(* MC_Store with the two things another process can do to a call in flight: *)
(* read the database through a connection of its own, and die.              *)
(*   snap  what the second connection last read                             *)
(* `db' is by construction what a second connection (or the recovery after  *)
(* a crash) gets; the actions below make that explicit so that TLC explores *)
(* a reader and a crash at every point of every transaction.                *)
EXTENDS MC_Store
VARIABLE snap
cvars == <<db, work, txn, snap>>
\* a second connection reads: it gets the committed state, whatever the writer has done
\* inside its open transaction
Read == snap' = db /\ UNCHANGED vars
\* the writing process dies: no exception handler runs; the next connection rolls the
\* journal back
Crash == /\ txn.kind \in {"add", "remove"}
         /\ work' = db /\ txn' = None /\ UNCHANGED <<db, snap>>
ConcInit == Init /\ snap = EmptyState
ConcNext == (Next /\ UNCHANGED snap) \/ Read \/ Crash
ConcSpec == ConcInit /\ [][ConcNext]_cvars

\* whatever a reader gets is a state in which every audit holds ...
ReaderSeesCanonical == Canonical(snap)
\* ... and never the inside of the transaction that is open while it reads
ReadIsCommitted == [][Read => snap' = db /\ (txn # None /\ work # db => snap' # work)]_cvars
CrashRestores == [][Crash => (db' = db /\ work' = db)]_cvars
CommitsOnly == [][db' # db => (txn.kind \in {"add", "remove"} \/ \E f \in IliFiles : AddIli(f))]_cvars
=============================================================================
