------------------------------ MODULE WnSession ------------------------------
(* Data directories and connections (wn/_config.py, wn/_db.py): wn keeps one *)
(* SQLite file per data directory, opened on first use and cached in a pool  *)
(* keyed by path.  What a process sees is the database of the CURRENT data   *)
(* directory; other directories are untouched.                               *)
(*   cur    the current data directory                                       *)
(*   disk   directory -> [kind, lex]: kind "absent" (no wn.db), "foreign" (a *)
(*          wn.db written by an incompatible schema) or "db" with the set of *)
(*          installed lexicons                                               *)
(*   open   the directories that have a cached connection                    *)
(* A call on an absent database creates it (also a read-only call); a call   *)
(* on a foreign one raises DatabaseError and leaves the file as it is.       *)
EXTENDS Naturals, Sequences, FiniteSets
Ok(v) == <<"ok", v>>
Exc(n) == <<"exc", n>>
Absent == [kind |-> "absent", lex |-> {}]
Foreign == [kind |-> "foreign", lex |-> {}]
Db(S) == [kind |-> "db", lex |-> S]

\* every call starts by connecting to the database of the current directory
Connect(disk, open, cur) ==
  IF cur \in open THEN [disk |-> disk, open |-> open, err |-> FALSE]
  ELSE IF disk[cur].kind = "foreign" THEN [disk |-> disk, open |-> open, err |-> TRUE]
  ELSE [disk |-> [disk EXCEPT ![cur] = Db(@.lex)], open |-> open \cup {cur}, err |-> FALSE]
Refused(disk, open) == [disk |-> disk, open |-> open, res |-> Exc("DatabaseError")]
\* wn.lexicons(): it answers "no lexicons" for every wn.Error of the Wordnet it builds,
\* and DatabaseError is one -- a foreign database looks empty through this call
List(disk, open, cur) ==
  LET c == Connect(disk, open, cur) IN
    IF c.err THEN [disk |-> disk, open |-> open, res |-> Ok({})]
    ELSE [disk |-> c.disk, open |-> c.open, res |-> Ok(c.disk[cur].lex)]
\* any other query, e.g. wn.synsets(): the lexicons it searched
Query(disk, open, cur) ==
  LET c == Connect(disk, open, cur) IN
    IF c.err THEN Refused(disk, open)
    ELSE [disk |-> c.disk, open |-> c.open, res |-> Ok(c.disk[cur].lex)]
\* wn.add of a single-lexicon resource l (already installed: skipped)
Add(disk, open, cur, l) ==
  LET c == Connect(disk, open, cur) IN
    IF c.err THEN Refused(disk, open)
    ELSE [disk |-> [c.disk EXCEPT ![cur] = Db(@.lex \cup {l})], open |-> c.open, res |-> Ok({})]
\* wn.remove(l)  (wn.Error when nothing matches)
Remove(disk, open, cur, l) ==
  LET c == Connect(disk, open, cur) IN
    IF c.err THEN Refused(disk, open)
    ELSE IF l \notin c.disk[cur].lex THEN [disk |-> c.disk, open |-> c.open, res |-> Exc("Error")]
    ELSE [disk |-> [c.disk EXCEPT ![cur] = Db(@.lex \ {l})], open |-> c.open, res |-> Ok({})]
=============================================================================
