INIT Init
NEXT Next
CHECK_DEADLOCK FALSE
INVARIANT Total
INVARIANT HeaderFaultsRejected
INVARIANT NeutralAccepted
INVARIANT OldElementsEverywhere
INVARIANT NewElementsNotIn10
INVARIANT MonotoneInVersion
INVARIANT IdsAreRequired
