INIT Init
NEXT Next
CHECK_DEADLOCK FALSE
INVARIANT RelFindingsNeedRelations
INVARIANT ClosedHasNoW404
INVARIANT W403IffDuplicate
INVARIANT E401IffDangling
INVARIANT LoBelowHi
INVARIANT SelectedIsMonotone
