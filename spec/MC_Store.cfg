CONSTANTS
  Resources = {"Ra1", "Ra2", "Rx", "Ry", "Rr", "Rar", "Rax", "Raa"}
  RemoveArgs = {"a", "a:1", "a:*", "x:1", "*", "r", "zz", "y:1 a:2"}
  IliFiles = {"f1", "f2"}
SPECIFICATION Spec
CHECK_DEADLOCK FALSE
INVARIANT CommittedCanonical
INVARIANT QuiescentAgree
INVARIANT Readdable
INVARIANT IliIdempotent
INVARIANT IliCommutes
INVARIANT Idempotent
INVARIANT SkipWhole
PROPERTY WholeOperationsOnly
PROPERTY AbortRestores
PROPERTY IliOnly
