------------------------------ MODULE MC_Project ------------------------------
(* WnProject on every path tree of depth <= 2 over four kinds of file.           *)
EXTENDS WnProject, TLC
VARIABLE n
F(w) == [k |-> "file", what |-> w]
Leaves == {F("lmf:A"), F("lmf:B"), F("ili:f"), F("other")}
Seqs(S) == {<<>>} \cup {<<a>> : a \in S} \cup {<<a, b>> : a, b \in S}
Level1 == Leaves \cup {[k |-> "dir", kids |-> s] : s \in Seqs(Leaves)}
          \cup {[k |-> "tar", kids |-> s, unsafe |-> u] : s \in Seqs(Leaves), u \in BOOLEAN}
          \cup {[k |-> z, of |-> l] : z \in {"gz", "xz"}, l \in Leaves}
Level2 == Level1 \cup {[k |-> "dir", kids |-> s] : s \in Seqs(Level1)}
          \cup {[k |-> "tar", kids |-> <<a>>, unsafe |-> FALSE] : a \in Level1}
Init == n \in Level2
Next == UNCHANGED n
Res(x) == x # "other"
\* Found is total: a non-empty set, either the refusal or sequences of resources
Total == /\ Found(n) # {}
         /\ Found(n) = {Error} \/ \A rs \in Found(n) : rs # Error /\ \A k \in DOMAIN rs : Res(rs[k])
\* all admissible orders add the same resources
R(s) == {s[k] : k \in DOMAIN s}
SameResources == \A a, b \in Found(n) : R(a) = R(b) /\ Len(a) = Len(b)
\* a safe archive of exactly one thing is that thing; anything else is refused
TarIsTransparent == n.k = "tar" =>
   IF n.unsafe \/ Len(n.kids) # 1 THEN Refused(n) ELSE Found(n) = Found(n.kids[1])
\* a directory is a package iff it holds exactly one resource file, whatever else it holds
PackageRule == n.k = "dir" =>
   (Cardinality({k \in DOMAIN n.kids : IsRes(n.kids[k])}) = 1 => Found(n) = {<<PackageRes(n)>>})
\* a directory without resource files of its own is a collection of its package
\* directories; without any it is refused
CollectionRule == (n.k = "dir" /\ ~IsPackageDir(n)) =>
   (Refused(n) <=> ~\E k \in DOMAIN n.kids : IsPackageDir(n.kids[k]))
CompressedRule == n.k \in {"gz", "xz"} => (Refused(n) <=> n.of.what = "other")
=============================================================================
