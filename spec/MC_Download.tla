----------------------------- MODULE MC_Download -----------------------------
(* Bounded exploration of wn.download(): three URLs (two mirrors of p:1, one *)
(* of p:2), servers that change their behaviour between calls, a user who    *)
(* deletes cache files, calls by project specifier and by URL.               *)
EXTENDS WnDownload, TLC
VARIABLES cache, server, db, served
vars == <<cache, server, db, served>>
CONSTANT MaxLevel

U1 == "http://a/1"
U2 == "https://b/1"
U3 == "http://c/2"
Urls == {U1, U2, U3}
Good == {"g1", "g2"}
Contents == Good \cup {"bad"}
V(ver, kind, urls, error) == [version |-> ver, kind |-> kind, urls |-> urls, error |-> error, license |-> None]
P(id, error, vs) == [id |-> id, type |-> "wordnet", label |-> None, language |-> None, license |-> None,
                     error |-> error, versions |-> vs]
Index == << P("p", None, <<V("1", "urls", <<U2, U1>>, None), V("2", "urls", <<U3>>, None),
                           V("3", "error", <<>>, "E")>>),
            P("q", "gone", <<V("1", "urls", <<U1>>, None)>>),
            P("r", None, <<V("1", "none", <<>>, None)>>) >>
Args == {"p", "p:1", "p:2", "p:3", "p:9", "q", "r", "zz", U1, U3}
Behaviours == {<<"ok", c>> : c \in Contents} \cup {<<"status">>, <<"unreachable">>, <<"drop">>}

Init == /\ cache = [u \in Urls |-> None]
        /\ server \in [Urls -> {<<"ok", "g1">>, <<"unreachable">>}]
        /\ db = {}
        /\ served = [u \in Urls |-> {}]
Call(arg, add) ==
  LET r == Download(Index, cache, server, db, Good, arg, add) IN
    /\ cache' = r.cache /\ db' = r.db
    /\ served' = [u \in Urls |-> served[u] \cup
                    (IF \E k \in DOMAIN r.reqs : r.reqs[k] = u /\ server[u][1] = "ok" THEN {server[u][2]} ELSE {})]
    /\ UNCHANGED server
SetServer(u, b) == server' = [server EXCEPT ![u] = b] /\ UNCHANGED <<cache, db, served>>
Evict(u) == cache[u] # None /\ cache' = [cache EXCEPT ![u] = None] /\ UNCHANGED <<server, db, served>>
Next == \/ \E a \in Args, add \in BOOLEAN : Call(a, add)
        \/ \E u \in Urls, b \in Behaviours : SetServer(u, b)
        \/ \E u \in Urls : Evict(u)
Spec == Init /\ [][Next]_vars
Bound == TLCGet("level") <= MaxLevel

Res(arg, add) == Download(Index, cache, server, db, Good, arg, add)
CachedSet == {u \in Urls : cache[u] # None}
\* only what a server really sent, whole, is ever in the cache
InvCacheServed == \A u \in Urls : cache[u] # None => cache[u] \in served[u]
InvDbOnlyGood == db \subseteq Good
\* with nothing cached, a project download succeeds exactly through the first mirror that
\* answers, provided every mirror before it failed in transit (an HTTP status ends the call)
InvMirrors ==
  \A arg \in {"p", "p:1", "p:2"} :
    LET info == GetInfo(Index, CachedSet, arg)  urls == info[2].resource_urls
        k == FirstUsable(urls, server)  r == Res(arg, FALSE) IN
      (\A j \in DOMAIN urls : urls[j] \notin CachedSet) =>
        /\ (k # 0 <=> r.res[1] = "ok")
        /\ k # 0 => r.res = Ok(urls[k]) /\ r.reqs = SubSeq(urls, 1, k)
        /\ k = 0 => \A j \in DOMAIN r.reqs : r.cache[r.reqs[j]] = None   \* nothing left behind
\* a cached file answers the call without any request
InvHitsAreLocal ==
  \A arg \in Args, add \in BOOLEAN :
    LET r == Res(arg, add) IN
      (r.res[1] = "ok" /\ r.res[2] \in CachedSet /\ r.reqs = <<>>)
      \/ (r.res[1] = "ok" /\ r.res[2] \notin CachedSet /\ r.reqs # <<>>)
      \/ r.res[1] = "exc"
\* a successful call can be repeated: same answer, no request, nothing changes
InvRepeatable ==
  \A arg \in Args, add \in BOOLEAN :
    LET r == Res(arg, add) IN
      r.res[1] = "ok" =>
        LET r2 == Download(Index, r.cache, server, r.db, Good, arg, add) IN
          r2.res = r.res /\ r2.reqs = <<>> /\ r2.cache = r.cache /\ r2.db = r.db
\* a file that cannot be added stays in the cache and keeps failing the same way
InvBadFileSticks ==
  \A u \in {U1, U3} : (cache[u] # None /\ cache[u] \notin Good) =>
     LET r == Res(u, TRUE) IN r.res = Exc("Error:could not add") /\ r.cache = cache /\ r.reqs = <<>>
\* the database only changes when asked to, and only grows
PropDb == [][db \subseteq db']_vars
=============================================================================
