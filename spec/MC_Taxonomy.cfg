CONSTANT N = 3
INIT Init
NEXT Next
CHECK_DEADLOCK FALSE
INVARIANT SymSP
INVARIANT ZeroIffSame
INVARIANT DepthOrder
INVARIANT LchInCommon
INVARIANT SimConnects
INVARIANT ErrorIffNothingShared
INVARIANT RootReadingsAgreeOnDags
INVARIANT LchReadingsAgreeOnDags
INVARIANT SelfIsLowestOnDags
INVARIANT AncIsPathNodes
INVARIANT PathsAreSimpleMaximal
INVARIANT TaxDepthAlgoOnDags
INVARIANT PathBounds
INVARIANT WupBounds
INVARIANT WupSym
INVARIANT SelfMaximalPath
