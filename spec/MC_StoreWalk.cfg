CONSTANTS
  Resources = {"Ra1", "Ra2", "Rx", "Ry", "Rr", "Ru", "Rab", "Rar", "Rax", "Rxa", "Raa", "Rua", "Rf11"}
  RemoveArgs = {"a", "a:1", "a:*", "x:1", "*", "r", "zz", "y:1 a:2", "*:1", "a*", "ab", "u:2 r:1", "a x:*", "f", "y"}
  IliFiles = {"f1", "f2", "f3", "f4"}
  Depth = 14
SPECIFICATION Spec
CHECK_DEADLOCK FALSE
INVARIANT Emit
INVARIANT StaysCanonical
