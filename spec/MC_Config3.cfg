SPECIFICATION Spec
CONSTANT MaxLevel = 3
CONSTRAINT Bound
INVARIANT InvWellFormed
INVARIANT InvDefaultIsFirst
INVARIANT InvProjectsAnswers
INVARIANT InvUpdateIdempotent
INVARIANT InvInfoSound
PROPERTY PropMonotone
CHECK_DEADLOCK FALSE
