--------------------------- MODULE MC_Taxonomy ---------------------------
(* Exhaustive check of the design-level theorems behind C13/C14 on every    *)
(* labelled digraph (self-loops included) with N synsets.                   *)
EXTENDS WnTaxonomy, Json
CONSTANT N
VARIABLE G
NN == 1..N
Mk(h) == Prep([n |-> N, hyp |-> h, hypo |-> {<<e[2], e[1]>> : e \in h},
               pos |-> [x \in NN |-> "n"]])
\* the state graph is the lattice of edge sets: every labelled digraph is one
\* state, reached by declaring one more hypernym relation
Init == G = Mk({})
AddEdge(e) == e \notin G.hyp /\ G' = Mk(G.hyp \cup {e})
Next == \E e \in NN \X NN : AddEdge(e)
\* spec -> code: every explored graph is printed and replayed on the real code
Emit == PrintT(ToJson([n |-> G.n, hyp |-> G.hyp]))
Pairs == NN \X NN
B == BOOLEAN

SymSP == \A a, b \in NN, s \in B : SPLens(G, a, b, s) = SPLens(G, b, a, s)
ZeroIffSame == \A a, b \in NN, s \in B : (0 \in SPLens(G, a, b, s)) <=> (a = b)
DepthOrder == \A x \in NN, s \in B : MinDepth(G, x, s) <= MaxDepth(G, x, s)
LchInCommon == \A a, b \in NN, s \in B : \A L \in LCHs(G, a, b, s) :
                  /\ L \subseteq Common(G, a, b, s)
                  /\ (L = {}) <=> (Common(G, a, b, s) = {})
SimConnects == \A a, b \in NN : SPLenR(G, a, b, TRUE, FALSE) >= 0
ErrorIffNothingShared ==
  \A a, b \in NN, s \in B : (SPLen(G, a, b, s) < 0) <=> (Common(G, a, b, s) = {})
RootReadingsAgreeOnDags ==
  Cyclic(G) \/ \A x \in NN : DistRootA(G, x) = DistRootB(G, x)
LchReadingsAgreeOnDags ==
  Cyclic(G) \/ \A a, b \in NN, s \in B : LCH_A(G, a, b, s) = LCH_B(G, a, b, s)
SelfIsLowestOnDags ==
  Cyclic(G) \/ \A a \in NN, s \in B : LCH_A(G, a, a, s) = {a}
AncIsPathNodes ==
  \A x \in NN, s \in B : Anc(G, x, s) = UNION {Rng(p) : p \in PathsSelf(G, x, s)}
PathsAreSimpleMaximal ==
  \A x \in NN : \A p \in Paths(G, x) :
     /\ Cardinality(Rng(p)) = Len(p) /\ x \notin Rng(p)
     /\ p[1] \in Hyp(G, x)
     /\ \A k \in 1..(Len(p) - 1) : p[k + 1] \in Hyp(G, p[k])
     /\ Hyp(G, Last(p)) \subseteq Rng(p) \cup {x}
\* the algorithm of taxonomy_depth (with the `seen' shortcut) is right on DAGs
TaxDepthAlgoOnDags ==
  Cyclic(G) \/ TaxDepthAlgo(G, [k \in 1..N |-> k], {}, 0) = TaxDepth(G, "n")
\* ... and TLC finds the cyclic counterexample when asked (not in the cfg)
TaxDepthAlgoEverywhere ==
  TaxDepthAlgo(G, [k \in 1..N |-> k], {}, 0) = TaxDepth(G, "n")

(* similarity (C14) *)
Leq(p, q) == p[1] * q[2] <= q[1] * p[2]
PathBounds == \A a, b \in NN, s \in B : \A r \in PathSims(G, a, b, s) :
                /\ Leq(<<0, 1>>, r) /\ Leq(r, <<1, 1>>)
                /\ (r[1] = r[2]) <=> (a = b)
                /\ (r[1] = 0) => (\E d \in SPLens(G, a, b, s) : d < 0)
WupBounds == \A a, b \in NN, s \in B : \A r \in WupSet(G, a, b, s) :
                /\ r[1] > 0 /\ Leq(r, <<1, 1>>)
                /\ (a = b /\ ~Cyclic(G)) => r[1] = r[2]
WupSym == \A a, b \in NN, s \in B : WupSet(G, a, b, s) = WupSet(G, b, a, s)
SelfMaximalPath == \A a, b \in NN, s \in B :
                \A r \in PathSims(G, a, b, s) : \A q \in PathSims(G, a, a, s) : Leq(r, q)
=============================================================================
