------------------------------ MODULE MC_Config ------------------------------
(* Bounded exploration of the project index: every sequence of the public   *)
(* calls of WNConfig over two project ids, two versions and two URLs.       *)
EXTENDS WnConfig, TLC
VARIABLES idx, cached
vars == <<idx, cached>>
CONSTANT MaxLevel

PIds == {"p", "q"}
VerNames == {"1", "2"}
Urls == {"u1", "u2"}
Absent == "-"

MkVer(ver, url, error, license) ==
  [version |-> ver, url |-> url, error |-> error, license |-> license,
   has |-> {f \in {"url", "error", "license"} :
              (f = "url" /\ url # Absent) \/ (f = "error" /\ error # Absent)
              \/ (f = "license" /\ license # Absent)}]
MkEntry(id, label, license, error, vs) ==
  [id |-> id, type |-> None, label |-> label, language |-> None, license |-> license,
   error |-> error, versions |-> vs,
   has |-> {f \in {"label", "license", "error"} :
              (f = "label" /\ label # Absent) \/ (f = "license" /\ license # Absent)
              \/ (f = "error" /\ error # Absent)}]
VerSeqs == {<<>>} \cup {<<MkVer(v, u, e, Absent)>> :
                           v \in VerNames, u \in {Absent, "u1"}, e \in {Absent, "E"}}
            \cup {<<MkVer("2", "u2 u1", Absent, "M"), MkVer("1", Absent, "E", Absent)>>}
Entries == {MkEntry(id, l, c, e, vs) : id \in PIds, l \in {Absent, "A", "B"},
                                        c \in {Absent, "L"}, e \in {Absent, "E"}, vs \in VerSeqs}
Docs == {<<e>> : e \in Entries}
        \cup {d \in {<<MkEntry(a, l1, Absent, Absent, <<>>), MkEntry(b, l2, Absent, Absent, <<>>)>> :
                      a \in PIds, b \in PIds, l1 \in {Absent, "A", "B"}, l2 \in {Absent, "A", "B"}} :
                 d[1].id # d[2].id}

Init == idx = <<>> /\ cached = {}
DoAddProject == \E id \in PIds, l \in {None, "A"}, c \in {None, "L"}, e \in {None, "", "E"} :
                  idx' = AddProject(idx, id, "wordnet", l, None, c, e).idx /\ UNCHANGED cached
DoAddVersion == \E id \in PIds, v \in VerNames, u \in {None, "", "u1", "u1 u2"},
                   e \in {None, "E"}, c \in {None, "M"} :
                  idx' = AddVersion(idx, id, v, u, e, c).idx /\ UNCHANGED cached
DoUpdate == \E d \in Docs : idx' = UpdateIndex(idx, d, 1).idx /\ UNCHANGED cached
DoCache == \E u \in Urls : cached' = cached \cup {u} /\ UNCHANGED idx
Next == DoAddProject \/ DoAddVersion \/ DoUpdate \/ DoCache
Spec == Init /\ [][Next]_vars
Bound == TLCGet("level") <= MaxLevel

InvWellFormed == WellFormed(idx)
InvDefaultIsFirst == DefaultIsFirst(idx, cached)
InvProjectsAnswers == ProjectsAnswers(idx, cached)
\* a successful update can be repeated without effect
InvUpdateIdempotent ==
  TLCGet("level") <= MaxLevel => \A d \in Docs : LET r == UpdateIndex(idx, d, 1) IN
     r.res[1] = "ok" => UpdateIndex(r.idx, d, 1) = r
\* what get_project_info answers is stored information, and the cache path it reports
\* belongs to one of the version's own URLs
InvInfoSound ==
  \A id \in PIds, v \in VerNames \cup {"", "*", "9"} :
    LET r == GetInfo(idx, cached, id \o ":" \o v) IN
      r[1] = "ok" =>
        /\ r[2].id = id /\ ProjPos(idx, id) # 0
        /\ r[2].cache # None => r[2].cache \in cached /\ \E k \in DOMAIN r[2].resource_urls :
                                                            r[2].resource_urls[k] = r[2].cache
        /\ r[2].cache = None => \A k \in DOMAIN r[2].resource_urls : r[2].resource_urls[k] \notin cached
PropMonotone == [][Grows(idx, idx') /\ AttrsFixed(idx, idx')]_vars
=============================================================================
