------------------------------ MODULE Judge_C20 ------------------------------
(* Trace validation for C20: single-fault mutations of valid documents; load(),  *)
(* add(), is_lmf() and scan_lexicons() against the acceptance rules of WnLmf.    *)
EXTENDS WnLmf, Json, IOUtils, TLC
Recs == ndJsonDeserialize(IOEnv.TRACE_FILE)
VARIABLE i
Init == i \in 1..Len(Recs)
Next == UNCHANGED i
Ok(st) == st = "ok"
\* r: [v, m, load (st), loaded (flat) , orig (flat of the unmutated document), add (st),
\*      db_unchanged, is_lmf, scan_st, scan <<id, version, label, extId, extVersion>>...]
LoadOK(r) == Ok(r.load) <=> Accepts(r.v, r.m)
NeutralOK(r) == (Neutral(r.m) /\ Ok(r.load)) => AsSets(r.loaded) = AsSets(r.orig)
\* add(): rejected documents raise and leave the database as it was; accepted ones are added
AddOK(r) == IF Accepts(r.v, r.m) THEN Ok(r.add) ELSE ~Ok(r.add) /\ r.db_unchanged
\* known deviation (fixed): a file cut inside a <Lexicon ...> start tag was "added" silently
DevAddSilentOnTruncatedStartTag(r) ==
  /\ ~AddOK(r) /\ r.m.kind = "unbalance" /\ r.m.attr = "start-tag" /\ Ok(r.add) /\ r.db_unchanged
\* known deviation: add() decides from the quick scan alone that there is nothing to do (here:
\* every lexicon the scan found is an extension whose base is neither installed nor in the
\* file) and returns without ever parsing the file - a malformed rest goes unreported
AllSkippable(r) ==
  /\ Ok(r.scan_st) /\ Len(r.scan) >= 1
  /\ \A k \in DOMAIN r.scan :
        /\ r.scan[k][4] # "~"
        /\ ~\E j \in DOMAIN r.scan : r.scan[j][1] = r.scan[k][4] /\ r.scan[j][2] = r.scan[k][5]
DevAddSkipsWithoutParsing(r) ==
  /\ ~AddOK(r) /\ ~Accepts(r.v, r.m) /\ Ok(r.add) /\ r.db_unchanged /\ AllSkippable(r)
IsLmfOK(r) == Ok(r.is_lmf_st) /\ (r.is_lmf <=> HeaderOK(r.m))
\* scan_lexicons(): the lexicons a full load returns, in order
LoadedLex(r) == [k \in DOMAIN r.loaded.lex |->
                   <<r.loaded.lex[k][3], r.loaded.lex[k][4], r.loaded.lex[k][5],
                     r.loaded.lex[k][13], r.loaded.lex[k][14]>>]
ScanOK(r) == Ok(r.load) => (Ok(r.scan_st) /\ r.scan = LoadedLex(r))
\* known deviation (fixed): the regular-expression scan neither unescaped
\* character references nor coped with the other quote character, and read
\* id= / version= / label= inside other attribute values and in comments
DevScanDisagrees(r) == Ok(r.load) /\ ~ScanOK(r) /\ Ok(r.scan_st) /\ Len(r.scan) >= 1
Cl(ok, name) == IF ok THEN {} ELSE {name}
Fails(r) ==
  IF "timeout" \in DOMAIN r THEN {"Terminates"} ELSE
  Cl(LoadOK(r), "LoadAcceptsExactlyValidDocuments") \cup Cl(NeutralOK(r), "NeutralMutationSameResult")
  \cup Cl(AddOK(r) \/ DevAddSilentOnTruncatedStartTag(r) \/ DevAddSkipsWithoutParsing(r), "AddRejectsAsAWhole")
  \cup Cl(IsLmfOK(r), "IsLmfIffHeaderAccepted")
  \cup Cl(ScanOK(r) \/ DevScanDisagrees(r), "ScanAgreesWithLoad")
Devs(r) ==
  IF "timeout" \in DOMAIN r THEN {} ELSE
  (IF DevAddSilentOnTruncatedStartTag(r) THEN {"DevAddSilentOnTruncatedStartTag"} ELSE {})
  \cup (IF DevScanDisagrees(r) THEN {"DevScanDisagrees"} ELSE {})
  \cup (IF DevAddSkipsWithoutParsing(r) THEN {"DevAddSkipsWithoutParsing"} ELSE {})
Judge == LET r == Recs[i]  f == Fails(r)  d == Devs(r) IN
  /\ f = {} \/ PrintT(ToJson([k |-> "FAIL", id |-> r.id, c |-> f, m |-> IF "m" \in DOMAIN r THEN r.m ELSE "-"]))
  /\ d = {} \/ PrintT(ToJson([k |-> "DEV", id |-> r.id, d |-> d]))
=============================================================================
