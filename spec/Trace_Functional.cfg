SPECIFICATION Spec
INVARIANT Report
POSTCONDITION AllConsumed
CHECK_DEADLOCK FALSE
