CONSTANT MaxLen = 4
INIT Init
NEXT Next
CHECK_DEADLOCK FALSE
INVARIANT Emit
