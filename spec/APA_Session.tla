---------------------------- MODULE APA_Session ----------------------------
(* Unbounded check of the session invariants with Apalache: the invariant is *)
(* inductive for ANY number of calls (three directories, two lexicons).      *)
EXTENDS Integers, FiniteSets

Dirs == {"A", "B", "F"}
Lexs == {"p:1", "q:1"}

VARIABLES
  \* @type: Str;
  cur,
  \* @type: Str -> { kind: Str, lex: Set(Str) };
  disk,
  \* @type: Set(Str);
  open

\* @type: (Set(Str)) => { kind: Str, lex: Set(Str) };
Db(S) == [kind |-> "db", lex |-> S]
Absent == [kind |-> "absent", lex |-> {}]
Foreign == [kind |-> "foreign", lex |-> {}]

CanConnect == cur \in open \/ disk[cur].kind # "foreign"
\* the effect of connecting on disk and open
ConnDisk == IF cur \in open THEN disk ELSE [disk EXCEPT ![cur] = Db(disk[cur].lex)]
ConnOpen == open \cup {cur}

SetDir == \E d \in Dirs : cur' = d /\ UNCHANGED <<disk, open>>
Query == /\ UNCHANGED cur
         /\ IF CanConnect THEN disk' = ConnDisk /\ open' = ConnOpen
            ELSE UNCHANGED <<disk, open>>
Add == \E l \in Lexs :
         /\ UNCHANGED cur
         /\ IF CanConnect
            THEN disk' = [ConnDisk EXCEPT ![cur] = Db(ConnDisk[cur].lex \cup {l})] /\ open' = ConnOpen
            ELSE UNCHANGED <<disk, open>>
Remove == \E l \in Lexs :
         /\ UNCHANGED cur
         /\ IF CanConnect
            THEN disk' = [ConnDisk EXCEPT ![cur] = Db(ConnDisk[cur].lex \ {l})] /\ open' = ConnOpen
            ELSE UNCHANGED <<disk, open>>
Next == SetDir \/ Query \/ Add \/ Remove
Init == cur = "A" /\ open = {} /\ disk = [d \in Dirs |-> IF d = "F" THEN Foreign ELSE Absent]

TypeOK == /\ cur \in Dirs /\ open \subseteq Dirs
          /\ \A d \in Dirs : disk[d].kind \in {"absent", "foreign", "db"} /\ disk[d].lex \subseteq Lexs
          /\ DOMAIN disk = Dirs
ForeignUntouched == disk["F"] = Foreign /\ "F" \notin open
OpenOnlyDbs == \A d \in open : disk[d].kind = "db"
AbsentIsEmpty == \A d \in Dirs : disk[d].kind # "db" => disk[d].lex = {}
IndInv == TypeOK /\ ForeignUntouched /\ OpenOnlyDbs /\ AbsentIsEmpty
\* Apalache: any state satisfying the invariant
IndInit == /\ cur \in Dirs /\ open \in SUBSET Dirs
           /\ disk \in [Dirs -> [kind : {"absent", "foreign", "db"}, lex : SUBSET Lexs]]
           /\ IndInv
=============================================================================
