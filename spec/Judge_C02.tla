------------------------------ MODULE Judge_C02 ------------------------------
(* Trace validation for C02: for a resource R (semantic normal form r.src) and  *)
(* every LMF version v the recorded load(dump(R, v)) must equal Project(R, v);  *)
(* dumping, loading and dumping again must reproduce the bytes.                 *)
EXTENDS WnLmf, Json, IOUtils, TLC
Recs == ndJsonDeserialize(IOEnv.TRACE_FILE)
VARIABLE i
Init == i \in 1..Len(Recs)
Next == UNCHANGED i
HasExtension(T) == \E r \in Rng(T.lex) : r[2] = "LexiconExtension"
\* WN-LMF 1.0 has no lexicon extensions at all: nothing is claimed there
Claimed(r, t) == ~(Old(t.v) /\ HasExtension(r.src))
Expected(r, t) == Project(r.src, t.v)
RoundTripOK(r, t) == t.st = "ok" /\ AsSets(t.got) = Expected(r, t) /\ t.got_version = t.v
\* known deviation (fixed): the writer dropped the metadata of examples
DevExampleMetaDropped(r, t) ==
  /\ ~RoundTripOK(r, t) /\ t.st = "ok"
  /\ AsSets(t.got) = DropExampleMeta(Expected(r, t))
\* known deviation: text read under xml:space="preserve" keeps its white space,
\* but the attribute is not written back, so the reload normalises it
DevPreserveNotWrittenBack(r) ==
  /\ r.preserve /\ r.foreign.st = "ok" /\ ~r.foreign.fixed
  /\ Diff(AsSets(r.foreign.first), AsSets(r.foreign.second)) \subseteq {"def", "sex", "yex"}
Fails(r) ==
  IF "timeout" \in DOMAIN r THEN {<<"Terminates", "-">>} ELSE
  {<<"RoundTrip", t.v, IF t.st = "ok" THEN Diff(AsSets(t.got), Expected(r, t)) ELSE {t.st}>> :
      t \in {t \in Rng(r.rt) : Claimed(r, t) /\ ~RoundTripOK(r, t) /\ ~DevExampleMetaDropped(r, t)}}
  \cup {<<"DumpOfLoadIsFixedPoint", t.v, "-">> : t \in {t \in Rng(r.rt) : Claimed(r, t) /\ t.st = "ok" /\ ~t.fixed}}
  \cup {<<"DumpedFileAccepted", t.v, "-">> : t \in {t \in Rng(r.rt) : Claimed(r, t) /\ t.st = "ok" /\ ~t.is_lmf}}
  \cup {<<"ArgumentUnchanged", t.v, "-">> : t \in {t \in Rng(r.rt) : ~t.arg_unchanged}}
  \cup (IF r.foreign.st = "ok" /\ (r.foreign.fixed \/ DevPreserveNotWrittenBack(r)) THEN {}
        ELSE {<<"ForeignFileFixedPoint", r.foreign.st, "-">>})
Devs(r) ==
  IF "timeout" \in DOMAIN r THEN {} ELSE
  (IF \E t \in Rng(r.rt) : Claimed(r, t) /\ DevExampleMetaDropped(r, t) THEN {"DevExampleMetaDropped"} ELSE {})
  \cup (IF DevPreserveNotWrittenBack(r) THEN {"DevPreserveNotWrittenBack"} ELSE {})
Judge == LET r == Recs[i]  f == Fails(r)  d == Devs(r) IN
  /\ f = {} \/ PrintT(ToJson([k |-> "FAIL", id |-> r.id, c |-> f]))
  /\ d = {} \/ PrintT(ToJson([k |-> "DEV", id |-> r.id, d |-> d]))
=============================================================================
