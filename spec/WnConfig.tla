------------------------------ MODULE WnConfig ------------------------------
(* The project index of wn.config (wn/_config.py): what download() and      *)
(* wn.projects() consult to turn "id:version" into resource URLs.           *)
(*                                                                          *)
(* The index is an insertion-ordered mapping  project id -> project, each   *)
(* project with an insertion-ordered mapping  version -> version data.      *)
(* Both orders are observable: get_project_info("id") resolves to the FIRST *)
(* version listed, and wn.projects() lists in index order.  They are kept   *)
(* here as sequences.  One operator per public method of WNConfig, each     *)
(* returning the new index and the outcome of the call, written the way the *)
(* code proceeds (checks in the code's order, partial effects of update()   *)
(* included), so that recorded calls can be judged step by step.            *)
(*                                                                          *)
(* None is "~"; an argument is "truthy" when it is neither None nor "".     *)
EXTENDS Naturals, Sequences, FiniteSets, WnSelect

None == "~"
Truthy(s) == s # None /\ s # ""
Ok(v) == <<"ok", v>>
Exc(name) == <<"exc", name>>

\* str.partition(":")
RECURSIVE Before(_)
Before(s) == IF Len(s) = 0 \/ Ch(s, 1) = ":" THEN "" ELSE Ch(s, 1) \o Before(Tl(s))
RECURSIVE After(_)
After(s) == IF Len(s) = 0 THEN "" ELSE IF Ch(s, 1) = ":" THEN Tl(s) ELSE After(Tl(s))

\* a project: [id, type, label, language, license, error, versions]
\* a version: [version, kind, urls, error, license]   kind in {"urls", "error", "none"}
Project(id, type, label, language, license, error) ==
  [id |-> id, type |-> type, label |-> label, language |-> language, license |-> license,
   error |-> error, versions |-> <<>>]
PosOf(seq, P(_)) == LET ks == {k \in DOMAIN seq : P(seq[k])} IN
                      IF ks = {} THEN 0 ELSE CHOOSE k \in ks : \A j \in ks : k <= j
ProjPos(idx, id) == LET P(p) == p.id = id IN PosOf(idx, P)
VerPos(vs, ver) == LET P(v) == v.version = ver IN PosOf(vs, P)

-----------------------------------------------------------------------------
(* add_project(id, type, label, language, license, error)                   *)
AddProject(idx, id, type, label, language, license, error) ==
  IF ProjPos(idx, id) # 0 THEN [idx |-> idx, res |-> Exc("ValueError")]
  ELSE [idx |-> Append(idx, Project(id, type, label, language, license,
                                    IF Truthy(error) THEN error ELSE None)),
        res |-> Ok(None)]

(* add_project_version(id, version, url, error, license): the url/error     *)
(* case analysis comes before the project is looked up; an existing version *)
(* is replaced in place (dict assignment keeps the key's position)          *)
VersionData(ver, url, error, license) ==
  [version |-> ver,
   kind |-> IF Truthy(url) THEN "urls" ELSE IF Truthy(error) THEN "error" ELSE "none",
   urls |-> IF Truthy(url) THEN Specifiers(url) ELSE <<>>,      \* url.split()
   error |-> IF Truthy(url) THEN None ELSE IF Truthy(error) THEN error ELSE None,
   license |-> IF Truthy(license) THEN license ELSE None]
AddVersion(idx, id, ver, url, error, license) ==
  IF Truthy(url) /\ Truthy(error) THEN [idx |-> idx, res |-> Exc("ConfigurationError")]
  ELSE LET k == ProjPos(idx, id) IN
    IF k = 0 THEN [idx |-> idx, res |-> Exc("KeyError")]
    ELSE LET vs == idx[k].versions
             j == VerPos(vs, ver)
             d == VersionData(ver, url, error, license)
             vs2 == IF j = 0 THEN Append(vs, d) ELSE [vs EXCEPT ![j] = d] IN
           [idx |-> [idx EXCEPT ![k].versions = vs2], res |-> Ok(None)]

(* get_project_info(arg); cached is the set of URLs whose cache file exists *)
FirstCached(urls, cached) ==
  LET P(u) == u \in cached  k == PosOf(urls, P) IN IF k = 0 THEN None ELSE urls[k]
GetInfo(idx, cached, arg) ==
  LET id == Before(arg)  k == ProjPos(idx, id) IN
  IF k = 0 THEN Exc("ProjectError:no such project id")
  ELSE LET p == idx[k] IN
    IF p.error # None THEN Exc("ProjectError:" \o p.error)
    ELSE LET given == After(arg)
             ver == IF given = "" \/ given = "*"
                    THEN (IF Len(p.versions) = 0 THEN "" ELSE p.versions[1].version)
                    ELSE given IN
      IF ver = "" THEN Exc("ProjectError:no versions available")
      ELSE LET j == VerPos(p.versions, ver) IN
        IF j = 0 THEN Exc("ProjectError:no such version")
        ELSE LET v == p.versions[j] IN
          IF v.kind = "error" THEN Exc("ProjectError:" \o v.error)
          ELSE Ok([id |-> id, version |-> ver, type |-> p.type, label |-> p.label,
                   language |-> p.language,
                   license |-> IF v.license # None THEN v.license ELSE p.license,
                   resource_urls |-> v.urls, cache |-> FirstCached(v.urls, cached)])

(* wn.projects(): every version that has resource URLs, in index order; one *)
(* that cannot be resolved makes the whole call fail                        *)
Listed(idx) ==
  LET RECURSIVE Go(_, _)
      Go(k, j) == IF k > Len(idx) THEN <<>>
                  ELSE IF j > Len(idx[k].versions) THEN Go(k + 1, 1)
                  ELSE (IF idx[k].versions[j].kind = "urls"
                        THEN <<idx[k].id \o ":" \o idx[k].versions[j].version>> ELSE <<>>)
                       \o Go(k, j + 1)
  IN Go(1, 1)
Projects(idx, cached) ==
  LET specs == Listed(idx)
      infos == [k \in DOMAIN specs |-> GetInfo(idx, cached, specs[k])]
      bad == {k \in DOMAIN specs : infos[k][1] = "exc"} IN
    IF bad = {} THEN Ok([k \in DOMAIN specs |-> infos[k][2]])
    ELSE infos[CHOOSE k \in bad : \A j \in bad : k <= j]

(* update(data): data.index is a sequence of project entries                *)
(*   [id, has: the set of keys present, type, label, language, license,     *)
(*    error, versions: <<[version, has, url, error, license]>>]             *)
(* applied left to right; an exception leaves what was done before it       *)
Field(e, f) == IF f \in e.has THEN e[f] ELSE None
AttrMismatch(e, p) == \E f \in {"label", "language", "license"} : f \in e.has /\ e[f] # p[f]
RECURSIVE UpdVersions(_, _, _, _)
UpdVersions(idx, e, vs, j) ==
  IF j > Len(vs) THEN [idx |-> idx, res |-> Ok(None)]
  ELSE LET v == vs[j] IN
    IF "url" \in v.has /\ "error" \in e.has
    THEN [idx |-> idx, res |-> Exc("ConfigurationError")]
    ELSE LET r == AddVersion(idx, e.id, v.version, Field(v, "url"), Field(v, "error"),
                             Field(v, "license")) IN
      IF r.res[1] = "exc" THEN r ELSE UpdVersions(r.idx, e, vs, j + 1)
UpdProject(idx, e) ==
  LET k == ProjPos(idx, e.id) IN
  IF k # 0 /\ AttrMismatch(e, idx[k]) THEN [idx |-> idx, res |-> Exc("ConfigurationError")]
  ELSE LET i1 == IF k # 0 THEN idx
                 ELSE AddProject(idx, e.id, IF "type" \in e.has THEN e.type ELSE "wordnet",
                                 Field(e, "label"), Field(e, "language"), Field(e, "license"),
                                 Field(e, "error")).idx IN
         UpdVersions(i1, e, e.versions, 1)
RECURSIVE UpdateIndex(_, _, _)
UpdateIndex(idx, entries, k) ==
  IF k > Len(entries) THEN [idx |-> idx, res |-> Ok(None)]
  ELSE LET r == UpdProject(idx, entries[k]) IN
    IF r.res[1] = "exc" THEN r ELSE UpdateIndex(r.idx, entries, k + 1)

-----------------------------------------------------------------------------
(* Facts about the design, checked on the bounded model MC_Config           *)
Ids(idx) == {idx[k].id : k \in DOMAIN idx}
Vers(p) == {p.versions[j].version : j \in DOMAIN p.versions}
WellFormed(idx) ==
  /\ \A a, b \in DOMAIN idx : idx[a].id = idx[b].id => a = b
  /\ \A k \in DOMAIN idx : \A a, b \in DOMAIN idx[k].versions :
        idx[k].versions[a].version = idx[k].versions[b].version => a = b
  /\ \A k \in DOMAIN idx : \A j \in DOMAIN idx[k].versions :
        LET v == idx[k].versions[j] IN
          /\ v.kind = "urls" <=> v.error = None /\ (v.urls # <<>> \/ v.kind = "urls")
          /\ v.kind = "error" <=> v.error # None
          /\ v.kind # "urls" => v.urls = <<>>
\* nothing is ever deleted or reordered: old is embedded in new, position by position
Grows(old, new) ==
  /\ Len(old) <= Len(new)
  /\ \A k \in DOMAIN old :
       /\ new[k].id = old[k].id
       /\ Len(old[k].versions) <= Len(new[k].versions)
       /\ \A j \in DOMAIN old[k].versions : new[k].versions[j].version = old[k].versions[j].version
\* project attributes never change once indexed
AttrsFixed(old, new) ==
  \A k \in DOMAIN old : \A f \in {"type", "label", "language", "license", "error"} :
     new[k][f] = old[k][f]
\* a bare id, "id:" and "id:*" all mean the first version listed
DefaultIsFirst(idx, cached) ==
  \A k \in DOMAIN idx : LET id == idx[k].id IN
    /\ GetInfo(idx, cached, id) = GetInfo(idx, cached, id \o ":")
    /\ GetInfo(idx, cached, id) = GetInfo(idx, cached, id \o ":*")
    /\ Len(idx[k].versions) > 0 =>
         GetInfo(idx, cached, id) = GetInfo(idx, cached, id \o ":" \o idx[k].versions[1].version)
\* projects() answers iff no listed version sits under a project-level error
ProjectsAnswers(idx, cached) ==
  (Projects(idx, cached)[1] = "ok") <=>
     ~ \E k \in DOMAIN idx : idx[k].error # None /\
          \E j \in DOMAIN idx[k].versions : idx[k].versions[j].kind = "urls"
=============================================================================
