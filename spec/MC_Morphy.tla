------------------------------ MODULE MC_Morphy ------------------------------
(* Theorems behind C17 on every lexicon of at most MaxWords words drawn from  *)
(* Pool and every query of Queries x part of speech.                         *)
EXTENDS WnMorphy, TLC
CONSTANT MaxWords
VARIABLE words
Pool == { <<"n", "ax", <<>>>>, <<"n", "axe", <<>>>>, <<"n", "axis", <<"axes">>>>,
          <<"n", "man", <<"men">>>>, <<"n", "es", <<>>>>, <<"v", "bake", <<"baked">>>>,
          <<"v", "try", <<>>>>, <<"a", "big", <<"bigger">>>>, <<"s", "big", <<>>>>,
          <<"v", "axe", <<"axes">>>>, <<"n", "men", <<>>>> }
Queries == {"axes", "men", "es", "s", "baked", "bakes", "tries", "bigger", "big", "ax", "women", "ing", ""}
Poses == {"~", "n", "v", "a", "s", "r", "x"}
Init == words = {}
Next == \E w \in Pool \ words : Cardinality(words) < MaxWords /\ words' = words \cup {w}

\* initialised: only lemmas of that part of speech ...
SoundInit == \A q \in Queries, p \in Poses : \A t \in MorphyInit(words, q, p) :
   t[2] # {} /\ t[2] \subseteq Lemmas(words, t[1]) /\ t[1] \in PosList(p)
\* ... and among them the query itself, the lemmas of words listing it as a
\* further form, and every rule output that is a lemma
CompleteInit == \A q \in Queries, p \in Poses : \A pp \in PosList(p) :
   LET got == UNION {t[2] : t \in {t \in MorphyInit(words, q, p) : t[1] = pp}} IN
     /\ (q \in Lemmas(words, pp) => q \in got)
     /\ ExcLemmas(words, pp, q) \subseteq got
     /\ (RuleOut(q, pp) \cap Lemmas(words, pp)) \subseteq got
UninitHasOriginal == \A q \in Queries, p \in Poses :
   \E t \in MorphyUninit(q, p) : q \in t[2]
\* a suffix that is the whole word is never detached: every output keeps a
\* non-empty stem of the query
NoFullSuppletion == \A q \in Queries, p \in MorphyPos : \A o \in RuleOut(q, p) :
   \E r \in Rng(Rules(p)) : /\ Len(r[1]) < Len(q) /\ EndsWith(q, r[1])
                             /\ o = SubSeq(q, 1, Len(q) - Len(r[1])) \o r[2]
                             /\ Len(o) > Len(r[2])
SatellitesShareRules == \A q \in Queries : RuleOut(q, "a") = RuleOut(q, "s")
=============================================================================
