CONSTANTS
  Keys = {"q1", "q2", "q3"}
  Seeds = {0, 1, 2}
  Leaky = {"q3"}
SPECIFICATION Spec
CHECK_DEADLOCK FALSE
INVARIANT NoFalseAlarm
INVARIANT Detects
PROPERTY MemoStable
