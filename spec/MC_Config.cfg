SPECIFICATION Spec
CONSTANT MaxLevel = 2
CONSTRAINT Bound
INVARIANT InvWellFormed
INVARIANT InvDefaultIsFirst
INVARIANT InvProjectsAnswers
INVARIANT InvUpdateIdempotent
INVARIANT InvInfoSound
PROPERTY PropMonotone
CHECK_DEADLOCK FALSE
