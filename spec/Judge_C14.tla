---------------------------- MODULE Judge_C14 ----------------------------
(* Trace validation for C14: similarity values recorded from wn.similarity   *)
(* (floats converted to exact rationals by the harness, logarithms undone)  *)
(* against the rational arguments the model admits.                         *)
EXTENDS WnIC, Json, IOUtils
Recs == ndJsonDeserialize(IOEnv.TRACE_FILE)
VARIABLE i
Init == i \in 1..Len(Recs)
Next == UNCHANGED i

GraphOf(r) == Prep([n |-> r.g.n,
               hyp |-> {<<e[1], e[2]>> : e \in Rng(r.g.hyp)},
               hypo |-> {<<e[1], e[2]>> : e \in Rng(r.g.hypo)},
               pos |-> r.g.pos])
\* sim rows: <<a, b, sim, pst, pnum, pden, wst, wnum, wden>>
PathOK(G, t) ==
  IF ~PosCompatible(G, t[1], t[2]) THEN t[4] = "err"
  ELSE t[4] = "ok" /\ \E q \in PathSims(G, t[1], t[2], t[3]) : REq(<<t[5], t[6]>>, q)
NoCommon(G, t) == Common(G, t[1], t[2], t[3]) = {}
WupOK(G, t) ==
  IF ~PosCompatible(G, t[1], t[2]) THEN t[7] = "err"
  ELSE IF NoCommon(G, t) THEN t[7] = "err"
  ELSE \/ t[7] = "ok" /\ \E q \in WupSet(G, t[1], t[2], t[3]) : REq(<<t[8], t[9]>>, q)
       \/ t[7] = "err" /\ t[3] /\ Cyclic(G) /\ -1 \in SPLens(G, t[1], t[2], t[3])
\* lch rows: <<a, b, sim, md, st, num, den>>  (num/den = exp(-lch))
LchOK(G, t) ==
  IF ~PosCompatible(G, t[1], t[2]) THEN t[5] = "err"
  ELSE \/ t[5] = "err" /\ -1 \in SPLens(G, t[1], t[2], t[3])
       \/ t[5] = "ok" /\ \E q \in LchArgs(G, t[1], t[2], t[3], t[4]) : REq(<<t[6], t[7]>>, q)
SymOK(o) == \A t, u \in Rng(o.sim) :
  (t[1] = u[2] /\ t[2] = u[1] /\ t[3] = u[3]) =>
     /\ t[4] = u[4] /\ REq(<<t[5], t[6]>>, <<u[5], u[6]>>)
     /\ t[7] = u[7] /\ REq(<<t[8], t[9]>>, <<u[8], u[9]>>)
LchSymOK(o) == \A t, u \in Rng(o.lch) :
  (t[1] = u[2] /\ t[2] = u[1] /\ t[3] = u[3] /\ t[4] = u[4]) =>
     t[5] = u[5] /\ REq(<<t[6], t[7]>>, <<u[6], u[7]>>)
\* no pair scores higher than a synset with itself (path, wup, lch)
SelfMaxOK(o) ==
  /\ \A t, u \in Rng(o.sim) : (t[1] = u[1] /\ u[2] = u[1] /\ t[3] = u[3]) =>
        /\ (t[4] = "ok" /\ u[4] = "ok") => RLeq(<<t[5], t[6]>>, <<u[5], u[6]>>)
        /\ (t[7] = "ok" /\ u[7] = "ok") => RLeq(<<t[8], t[9]>>, <<u[8], u[9]>>)
  \* lch is -log of the logged argument: smaller argument = higher score
  /\ \A t, u \in Rng(o.lch) :
        (t[1] = u[1] /\ u[2] = u[1] /\ t[3] = u[3] /\ t[4] = u[4] /\ t[5] = "ok" /\ u[5] = "ok")
           => RLeq(<<u[6], u[7]>>, <<t[6], t[7]>>)
BoundsOK(o) == \A t \in Rng(o.sim) :
  /\ t[4] = "ok" => (t[5] >= 0 /\ t[5] <= t[6] /\ ((t[5] = t[6]) <=> (t[1] = t[2])))
  /\ t[7] = "ok" => (t[8] > 0 /\ t[8] <= t[9] /\ (t[1] = t[2] => t[8] = t[9]))

\* ic rows: <<wi, a, b, rst, rn, rd, jst, jn, jd, lst, ln, ld>>
Wts(r, t) == r.g.weights[t[1] + 1]
NoLcs(G, t) == Common(G, t[2], t[3], FALSE) = {}
ResOK(G, r, t) ==
  IF ~PosCompatible(G, t[2], t[3]) \/ NoLcs(G, t) THEN t[4] = "err"
  ELSE t[4] = "ok" /\ \E q \in ResAdm(G, t[2], t[3], Wts(r, t).w, Wts(r, t).total) :
                          REq(<<t[5], t[6]>>, q)
DevResLeastInformativeLcs(G, r, t) ==
  /\ PosCompatible(G, t[2], t[3]) /\ ~NoLcs(G, t) /\ ~ResOK(G, r, t)
  /\ t[4] = "ok" /\ \E q \in ResDev(G, t[2], t[3], Wts(r, t).w, Wts(r, t).total) :
                          REq(<<t[5], t[6]>>, q)
JcnOK(G, r, t) ==
  IF ~PosCompatible(G, t[2], t[3]) \/ NoLcs(G, t) THEN t[7] = "err"
  ELSE \E q \in JcnAdm(G, t[2], t[3], Wts(r, t).w, Wts(r, t).total) :
         \/ q[1] = t[7] /\ REq(<<t[8], t[9]>>, <<q[2], q[3]>>)
         \* float rounding may miss the exact "infinite" case
         \/ q[1] = "inf" /\ t[7] \in {"inexact", "ok"}
LinOK(G, r, t) ==
  IF ~PosCompatible(G, t[2], t[3]) \/ NoLcs(G, t) THEN t[10] = "err"
  ELSE Len(Wts(r, t).exp) = 0
       \/ (t[10] = "ok" /\ \E q \in LinAdm(G, t[2], t[3], Wts(r, t).exp, Wts(r, t).texp) :
                               REq(<<t[11], t[12]>>, q))
IcSymOK(o) == \A t, u \in Rng(o.ic) :
  (t[1] = u[1] /\ t[2] = u[3] /\ t[3] = u[2]) =>
     /\ t[4] = u[4] /\ REq(<<t[5], t[6]>>, <<u[5], u[6]>>)
     /\ t[7] = u[7] /\ REq(<<t[8], t[9]>>, <<u[8], u[9]>>)
     /\ t[10] = u[10] /\ REq(<<t[11], t[12]>>, <<u[11], u[12]>>)

Cl(ok, name) == IF ok THEN {} ELSE {<<name, "-">>}
\* a failing clause is reported with one witness row
Rows(S, P(_), name) == LET bad == {t \in S : ~P(t)} IN
                         IF bad = {} THEN {} ELSE {<<name, CHOOSE t \in bad : TRUE>>}
Fails(r) ==
  IF "timeout" \in DOMAIN r THEN {<<"Terminates", "-">>} ELSE
  LET G == GraphOf(r)  o == r.c14
      P1(t) == PathOK(G, t)   P2(t) == WupOK(G, t)   P3(t) == LchOK(G, t)
      P4(t) == ResOK(G, r, t) \/ DevResLeastInformativeLcs(G, r, t)
      P5(t) == JcnOK(G, r, t)  P6(t) == LinOK(G, r, t) IN
     Rows(Rng(o.sim), P1, "Path")
     \cup Rows(Rng(o.sim), P2, "Wup")
     \cup Rows(Rng(o.lch), P3, "Lch")
     \cup Cl(SymOK(o) /\ LchSymOK(o), "Symmetric")
     \cup Cl(SelfMaxOK(o), "SelfMaximal")
     \cup Cl(BoundsOK(o), "Bounds")
     \cup Rows(Rng(o.ic), P4, "Res")
     \cup Rows(Rng(o.ic), P5, "Jcn")
     \cup Rows(Rng(o.ic), P6, "Lin")
     \cup Cl(IcSymOK(o), "IcSymmetric")
Devs(r) ==
  IF "timeout" \in DOMAIN r THEN {} ELSE
  LET G == GraphOf(r) IN
    IF \E t \in Rng(r.c14.ic) : DevResLeastInformativeLcs(G, r, t)
    THEN {"DevResLeastInformativeLcs"} ELSE {}
Judge == LET r == Recs[i]  f == Fails(r)  d == Devs(r) IN
  /\ f = {} \/ PrintT(ToJson([k |-> "FAIL", id |-> r.id, c |-> f]))
  /\ d = {} \/ PrintT(ToJson([k |-> "DEV", id |-> r.id, d |-> d]))
=============================================================================
