CONSTANT MaxLevel = 99
CONSTANT Depth = 12
SPECIFICATION WalkSpec
CHECK_DEADLOCK FALSE
INVARIANT Emit
INVARIANT InvWellFormed
INVARIANT InvDefaultIsFirst
INVARIANT InvProjectsAnswers
INVARIANT InvInfoSound
