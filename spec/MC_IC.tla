------------------------------- MODULE MC_IC -------------------------------
(* Design-level theorems behind C15 on every digraph with N synsets, two     *)
(* words and every corpus over them up to length 2.                         *)
EXTENDS WnIC
CONSTANT N
VARIABLES G, C
NN == 1..N
Mk(h) == Prep([n |-> N, hyp |-> h, hypo |-> {}, pos |-> [x \in NN |-> "n"]])
Words == <<<<"u", <<1>>>>, <<"v", <<1, 2>>>>, <<"v", <<N>>>>>>
Corpora == {[tokens |-> t, distribute |-> d, smoothing |-> s] :
              t \in {<<>>, <<"u">>, <<"v">>, <<"u", "v">>, <<"v", "v">>, <<"u", "zz">>},
              d \in BOOLEAN, s \in {<<0, 1>>, <<1, 2>>, <<1, 1>>}}
Init == G = Mk({}) /\ C \in Corpora
Next == \E e \in NN \X NN : e \notin G.hyp /\ G' = Mk(G.hyp \cup {e}) /\ UNCHANGED C

W(c) == IcWeight(G, Words, C, "n", c)
Tot == IcTotal(G, Words, C, "n")
\* the total is smoothing + the (distributed) counts of the known tokens
Conserved ==
  LET f(t) == Wt(Words, C, t) * Num(Words, t) IN
    Tot = Smooth(Words, C) + SumOver(Known(Words, C), f)
DistributedSumsToCount ==
  C.distribute => \A t \in Known(Words, C) :
     Wt(Words, C, t) * Num(Words, t) = Scale(Words, C) * Count(C, t)
Monotone == \A x \in NN : \A y \in Hyp(G, x) : W(x) <= W(y)
ProbInUnit == \A x \in NN : W(x) <= Tot /\ (C.smoothing[1] > 0 => W(x) > 0)
UnknownIgnored == \A x \in NN :
  IcWeight(G, Words, [C EXCEPT !.tokens = Append(@, "qq")], "n", x) = W(x)
\* the per-path walk of the pinned code is NOT the specified weight: TLC finds
\* the diamond when asked to check this (not part of the cfg)
PerPathIsOnce == \A x \in NN : IcWeightPerPath(G, Words, C, "n", x) = W(x)
PerPathIsOnceOnForests ==
  (\A x \in NN : Cardinality(Hyp(G, x)) <= 1 /\ ~Cyclic(G)) =>
     \A x \in NN : IcWeightPerPath(G, Words, C, "n", x) = W(x)
=============================================================================
