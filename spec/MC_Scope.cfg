SPECIFICATION Spec
CHECK_DEADLOCK FALSE
INVARIANT InScope
PROPERTY Insensitive
