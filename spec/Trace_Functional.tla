--------------------------- MODULE Trace_Functional ---------------------------
(* C16 as a trace specification.  The monitored system: a database whose       *)
(* content is fixed during an epoch ("World" starts a new one), interpreter    *)
(* processes that come and go with different hash seeds ("Proc"), and          *)
(* read-only API calls ("Call" with a key = the call and its arguments, and    *)
(* the digest of the canonical rendering of its result).                       *)
(*                                                                              *)
(* Specified behaviour: every result is a function of (database content,       *)
(* call): `memo' remembers the first digest seen for each key of the epoch;    *)
(* neither a new process nor any read-only call changes memo for other keys;   *)
(* a Call whose key is known must carry the remembered digest.  The trace      *)
(* spec is total: a line that the specification cannot explain is recorded in  *)
(* `bad' and the rest of the trace is still checked.                           *)
EXTENDS Naturals, Sequences, FiniteSets, TLC, Json, IOUtils
Trace == ndJsonDeserialize(IOEnv.TRACE_FILE)
VARIABLES l,      \* next line of the trace
          memo,   \* key -> digest, for the current database epoch
          proc,   \* hash seed of the running interpreter process ("~" before the first)
          bad     \* lines the specification could not explain
vars == <<l, memo, proc, bad>>
Empty == [k \in {} |-> ""]
Init == l = 1 /\ memo = Empty /\ proc = "~" /\ bad = <<>>

NewWorld(e) == e.ev = "World" /\ memo' = Empty /\ proc' = "~" /\ UNCHANGED bad
NewProcess(e) == e.ev = "Proc" /\ proc' = e.seed /\ UNCHANGED <<memo, bad>>
FirstCall(e) == /\ e.ev = "Call" /\ e.q \notin DOMAIN memo
                /\ memo' = [k \in DOMAIN memo \cup {e.q} |-> IF k = e.q THEN e.r ELSE memo[k]]
                /\ UNCHANGED <<proc, bad>>
SameAgain(e) == e.ev = "Call" /\ e.q \in DOMAIN memo /\ memo[e.q] = e.r /\ UNCHANGED <<memo, proc, bad>>
\* not explained by the specification: the same call on the same content gave
\* something else (in this or another process)
Differs(e) == /\ e.ev = "Call" /\ e.q \in DOMAIN memo /\ memo[e.q] # e.r
              /\ bad' = Append(bad, [line |-> l, world |-> e.w, q |-> e.q, seed |-> proc,
                                     first |-> memo[e.q], now |-> e.r])
              /\ UNCHANGED <<memo, proc>>
Next == /\ l <= Len(Trace)
        /\ LET e == Trace[l] IN NewWorld(e) \/ NewProcess(e) \/ FirstCall(e) \/ SameAgain(e) \/ Differs(e)
        /\ l' = l + 1
Spec == Init /\ [][Next]_vars
\* reported at the end of the trace
Report == l = Len(Trace) + 1 =>
            /\ PrintT(ToJson([k |-> "DONE", lines |-> Len(Trace), keys |-> Cardinality(DOMAIN memo)]))
            /\ \A k \in DOMAIN bad : PrintT(ToJson([k |-> "FAIL", id |-> bad[k].world, c |-> {bad[k]}]))
AllConsumed == TLCGet("stats").diameter - 1 = Len(Trace)
=============================================================================
