------------------------------ MODULE WnMorphy ------------------------------
(* The Morphy lemmatizer (docs/api/wn.morphy.rst) on real strings.            *)
(* A lexicon is a set of words <<pos, lemma, <<other forms>>>>.              *)
EXTENDS Naturals, Sequences, FiniteSets

Rng(s) == {s[k] : k \in DOMAIN s}
EndsWith(s, q) == Len(q) <= Len(s) /\ SubSeq(s, Len(s) - Len(q) + 1, Len(s)) = q
\* the detachment rules of the "WN" system: <<suffix, replacement>>
NounRules == << <<"s", "">>, <<"ces", "x">>, <<"ses", "s">>, <<"ves", "f">>, <<"ives", "ife">>,
                <<"xes", "x">>, <<"xes", "xis">>, <<"zes", "z">>, <<"ches", "ch">>,
                <<"shes", "sh">>, <<"men", "man">>, <<"ies", "y">> >>
VerbRules == << <<"s", "">>, <<"ies", "y">>, <<"es", "e">>, <<"es", "">>, <<"ed", "e">>,
                <<"ed", "">>, <<"ing", "e">>, <<"ing", "">> >>
AdjRules == << <<"er", "">>, <<"est", "">>, <<"er", "e">>, <<"est", "e">> >>
Rules(pos) == CASE pos = "n" -> NounRules [] pos = "v" -> VerbRules
                [] pos \in {"a", "s"} -> AdjRules      \* satellites share the adjective rules
                [] OTHER -> <<>>
MorphyPos == {"n", "v", "a", "r", "s"}      \* parts of speech Morphy handles

\* every rule output: the suffix is replaced, never when it is the whole word
RuleOut(form, pos) ==
  {SubSeq(form, 1, Len(form) - Len(r[1])) \o r[2] :
     r \in {r \in Rng(Rules(pos)) : EndsWith(form, r[1]) /\ Len(r[1]) < Len(form)}}

Lemmas(words, pos) == {w[2] : w \in {w \in words : w[1] = pos}}
\* lemmas of the words of that part of speech listing `form' as a further form
ExcLemmas(words, pos, form) ==
  {w[2] : w \in {w \in words : w[1] = pos /\ form \in Rng(w[3])}}

\* the candidate parts of speech for a call
PosList(pos) == IF pos = "~" THEN MorphyPos ELSE IF pos \in MorphyPos THEN {pos} ELSE {}

\* initialised with a wordnet: only valid lemmas of the part of speech
InitFor(words, form, p) ==
  ({form} \cap Lemmas(words, p)) \cup ExcLemmas(words, p, form)
  \cup (RuleOut(form, p) \cap Lemmas(words, p))
MorphyInit(words, form, pos) ==
  {<<p, InitFor(words, form, p)>> : p \in {p \in PosList(pos) : InitFor(words, form, p) # {}}}

\* not initialised: the original form (under the requested part of speech, "~"
\* when none was given) plus every rule output
MorphyUninit(form, pos) ==
  IF pos = "~"
  THEN {<<"~", {form}>>}
       \cup {<<p, RuleOut(form, p) \ {form}>> : p \in {p \in MorphyPos : RuleOut(form, p) \ {form} # {}}}
  ELSE {<<pos, {form} \cup RuleOut(form, pos)>>}
=============================================================================
