------------------------------- MODULE MC_Query -------------------------------
(* The algorithms the code uses for closure() (queue + visited) and            *)
(* relation_paths() (agenda of <<path, visited>>) are transcribed step by      *)
(* step and checked, on every relation graph over N synsets (edges added one   *)
(* at a time), to terminate and to compute the declarative Closure / RelPaths  *)
(* of WnQuery.                                                                  *)
EXTENDS WnQuery
CONSTANT N
VARIABLES edges
NN == 1..N
Node(k) == <<"b:1", ToString(k)>>
SetToSeq(S) == LET RECURSIVE F(_)
                   F(R) == IF R = {} THEN <<>> ELSE LET y == CHOOSE y \in R : TRUE IN <<y>> \o F(R \ {y})
               IN F(S)
T(es) == [lex |-> << <<"b:1", "b", "1", "en", "~", <<>>>> >>,
          synsets |-> [k \in NN |-> <<"b:1", ToString(k), "n", "">>],
          entries |-> <<>>, senses |-> <<>>, srels |-> <<>>, sssrels |-> <<>>, forms |-> <<>>, tags |-> <<>>,
          sexamples |-> <<>>, yexamples |-> <<>>, defs |-> <<>>, counts |-> <<>>,
          ssrels |-> SetToSeq(es)]
Row(a, b) == <<"b:1", "b:1", ToString(a), "also", "b:1", ToString(b), "~", "~">>
W == Wn(T(edges), <<"b:1">>, [lexicon |-> "b:1", lang |-> "~", expand |-> "-"])
Init == edges = {}
Next == \E a, b \in NN : Row(a, b) \notin edges /\ edges' = edges \cup {Row(a, b)}
Rel(x) == Related(W, x, "b:1", {})

\* closure(): queue of entities, visited set; returns the yielded sequence
RECURSIVE ClosureAlgo(_, _, _)
ClosureAlgo(queue, visited, out) ==
  IF queue = <<>> THEN out
  ELSE LET x == Head(queue) IN
         IF x \in visited THEN ClosureAlgo(Tail(queue), visited, out)
         ELSE ClosureAlgo(Tail(queue) \o SetToSeq(Rel(x)), visited \cup {x}, Append(out, x))
ClosureRefines == \A k \in NN :
  LET out == ClosureAlgo(SetToSeq(Rel(Node(k))), {}, <<>>) IN
    Rng(out) = Closure(W, Node(k), {}) /\ Len(out) = Cardinality(Rng(out))

\* relation_paths(): agenda of <<path, visited>>
RECURSIVE PathsAlgo(_, _)
PathsAlgo(agenda, out) ==
  IF agenda = <<>> THEN out
  ELSE LET item == agenda[Len(agenda)]
           rest == SubSeq(agenda, 1, Len(agenda) - 1)
           path == item[1]  vis == item[2]
           related == Rel(Last(path)) \ vis IN
         IF related = {} THEN PathsAlgo(rest, out \cup {path})
         ELSE PathsAlgo(rest \o SetToSeq({<<Append(path, y), vis \cup {y}>> : y \in related}), out)
PathsRefines == \A k \in NN :
  LET x == Node(k)
      start == SetToSeq({<<<<t>>, {x, t}>> : t \in Rel(x) \ {x}}) IN
    PathsAlgo(start, {}) = RelPaths(W, x, {})
PathsSimple == \A k \in NN : \A p \in RelPaths(W, Node(k), {}) :
    Len(p) = Cardinality(Rng(p)) /\ Node(k) \notin Rng(p)
ClosureIsReachable == \A k \in NN : \A y \in Closure(W, Node(k), {}) :
    y = Node(k) \/ \E p \in RelPaths(W, Node(k), {}) : y \in Rng(p)
=============================================================================
