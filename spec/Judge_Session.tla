---------------------------- MODULE Judge_Session ----------------------------
(* Trace validation for data directories and connections: every recorded     *)
(* call (directories on disk and cached connections before; call; outcome;   *)
(* the same after) must be the step WnSession.tla defines.                   *)
EXTENDS WnSession, Json, IOUtils, TLC
Recs == ndJsonDeserialize(IOEnv.TRACE_FILE)
VARIABLE i
Init == i \in 1..Len(Recs)
Next == UNCHANGED i
Rng(s) == {s[k] : k \in DOMAIN s}
Disk(o) == [d \in DOMAIN o |-> [kind |-> o[d].kind, lex |-> Rng(o[d].lex)]]
Cl(ok, name) == IF ok THEN {} ELSE {name}
Step(r) ==
  LET disk == Disk(r.pre.disk)  open == Rng(r.pre.open)  op == r.op IN
  CASE op[1] = "setdir" -> [disk |-> disk, open |-> open, res |-> Ok({})]
    [] op[1] = "list"   -> List(disk, open, r.cur)
    [] op[1] = "query"  -> Query(disk, open, r.cur)
    [] op[1] = "add"    -> Add(disk, open, r.cur, op[2])
    [] op[1] = "remove" -> Remove(disk, open, r.cur, op[2])
Fails(r) ==
  IF "timeout" \in DOMAIN r THEN {"Terminates"} ELSE
  LET m == Step(r) IN
    Cl(r.res[1] = m.res[1] /\ (IF r.res[1] = "ok" THEN Rng(r.res[2]) = m.res[2] ELSE r.res[2] = m.res[2]), "Outcome")
    \cup Cl(Disk(r.post.disk) = m.disk, "DirectoriesAfter")
    \cup Cl(Rng(r.post.open) = m.open, "ConnectionsAfter")
    \cup Cl(\A d \in DOMAIN r.pre.disk : d # r.cur => r.post.disk[d] = r.pre.disk[d], "OtherDirectoriesUntouched")
    \cup (IF "exp" \in DOMAIN r
          THEN Cl(r.res[1] = r.exp.res[1] /\ Disk(r.post.disk) = Disk(r.exp.disk), "SpecBehaviourReplayed")
          ELSE {})
Judge == LET r == Recs[i]  f == Fails(r) IN
  f = {} \/ PrintT(ToJson([k |-> "FAIL", id |-> r.id, c |-> f]))
=============================================================================
