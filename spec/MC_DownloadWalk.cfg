CONSTANT MaxLevel = 99
CONSTANT Depth = 14
SPECIFICATION WalkSpec
CHECK_DEADLOCK FALSE
INVARIANT Emit
INVARIANT InvCacheServed
INVARIANT InvMirrors
INVARIANT InvRepeatable
