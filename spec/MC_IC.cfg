CONSTANT N = 3
INIT Init
NEXT Next
CHECK_DEADLOCK FALSE
INVARIANT Conserved
INVARIANT DistributedSumsToCount
INVARIANT Monotone
INVARIANT ProbInUnit
INVARIANT UnknownIgnored
INVARIANT PerPathIsOnceOnForests
