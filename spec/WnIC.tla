------------------------------- MODULE WnIC -------------------------------
(* Information content (wn.ic) and the IC-based similarity arguments, as    *)
(* exact integers / rationals over a hypernym graph of WnTaxonomy.          *)
EXTENDS WnTaxonomy

LOCAL FSE == INSTANCE FiniteSetsExt
SumOver(S, f(_)) == FSE!MapThenSumSet(f, S)
ProdOver(S, f(_)) == FSE!FoldSet(LAMBDA x, acc : f(x) * acc, 1, S)
REq(p, q) == p[1] * q[2] = q[1] * p[2]
RLeq(p, q) == p[1] * q[2] <= q[1] * p[2]    \* positive denominators

(* ---- corpus weights ------------------------------------------------- *)
\* words: sequence of <<form, <<synset, ...>>>>;  corpus C = [tokens, distribute, smoothing]
SynsetsOf(words, t) == UNION {Rng(w[2]) : w \in {w \in Rng(words) : w[1] = t}}
Tokens(C) == Rng(C.tokens)
Count(C, t) == Cardinality({k \in DOMAIN C.tokens : C.tokens[k] = t})
Num(words, t) == Cardinality(SynsetsOf(words, t))
Known(words, C) == {t \in Tokens(C) : Num(words, t) > 0}
\* common scale so that every weight is an integer
Scale(words, C) == LET N(t) == Num(words, t) IN C.smoothing[2] * ProdOver(Known(words, C), N)
Wt(words, C, t) == IF C.distribute
                   THEN (Scale(words, C) * Count(C, t)) \div Num(words, t)
                   ELSE Scale(words, C) * Count(C, t)
Smooth(words, C) == (Scale(words, C) * C.smoothing[1]) \div C.smoothing[2]
IcPos == {"n", "v", "a", "r"}
\* word synsets of token t that count for part of speech pos
WordSynsets(G, words, t, pos) ==
  {s \in SynsetsOf(words, t) : FoldPos(G.pos[s]) = pos /\ pos \in IcPos}
\* total for a part of speech and weight of synset c (both scaled)
IcTotal(G, words, C, pos) ==
  LET f(t) == Wt(words, C, t) * Cardinality(WordSynsets(G, words, t, pos)) IN
    Smooth(words, C) + SumOver(Known(words, C), f)
\* ... each word synset contributes once to itself and to each of its
\* hypernym ancestors, however many paths converge there
IcWeight(G, words, C, pos, c) ==
  LET f(t) == Wt(words, C, t) *
              Cardinality({s \in WordSynsets(G, words, t, pos) : c \in Anc(G, s, FALSE)}) IN
    Smooth(words, C) + SumOver(Known(words, C), f)

\* what the agenda walk of the pinned ic.compute did instead: once per simple
\* hypernym path from the word synset to c (deviation, see known findings)
SimplePrefixes(G, s) ==
  {SubSeq(p, 1, k) : <<p, k>> \in {<<p, k>> \in PathsSelf(G, s, FALSE) \X (1..(G.n + 1)) : k <= Len(p)}}
NumPathsTo(G, s, c) == Cardinality({q \in SimplePrefixes(G, s) : Last(q) = c})
IcWeightPerPath(G, words, C, pos, c) ==
  LET g(t) == LET h(s) == NumPathsTo(G, s, c) IN
                Wt(words, C, t) * SumOver(WordSynsets(G, words, t, pos), h) IN
    Smooth(words, C) + SumOver(Known(words, C), g)

(* ---- load(): a WordNet::Similarity weights file ------------------------- *)
\* rows: sequence of <<synset, weight, isRoot>>; a part of speech gets as total the
\* sum of the weights of its rows marked ROOT, a listed synset the weight of its
\* last row, every other synset 0
RowsOfPos(G, rows, pos) == {k \in DOMAIN rows : FoldPos(G.pos[rows[k][1]]) = pos}
LoadTotal(G, rows, pos) ==
  LET w(k) == rows[k][2] IN SumOver({k \in RowsOfPos(G, rows, pos) : rows[k][3]}, w)
LoadWeight(G, rows, pos, x) ==
  LET ks == {k \in RowsOfPos(G, rows, pos) : rows[k][1] = x} IN
    IF ks = {} THEN 0 ELSE rows[CHOOSE k \in ks : \A j \in ks : k >= j][2]

(* ---- IC-based similarity arguments ---------------------------------- *)
\* W: sequence of positive weights per synset, N: total
MinW(W, S) == SeqMin({W[c] : c \in S})
MaxW(W, S) == SeqMax({W[c] : c \in S})
\* res = -log p0: p0 of the most informative common subsumer.  The guide
\* defines it over all common subsumers and says lowest common hypernyms
\* suffice; both readings are admissible (they agree for monotone weights).
ResAdm(G, a, b, W, N) ==
  {<<MinW(W, Common(G, a, b, FALSE)), N>>}
  \cup {<<MinW(W, L), N>> : L \in LCHs(G, a, b, FALSE)}
\* what the pinned code returns: the lowest common hypernym of greatest weight
ResDev(G, a, b, W, N) == {<<MaxW(W, L), N>> : L \in LCHs(G, a, b, FALSE)}
\* jcn / lin: c0 = "the lowest common hypernym with the highest information
\* content weight" (guide).  Whether that is the greatest weight or the
\* greatest information content (= least weight) is not settled by the text;
\* both are admissible.
C0Weights(W, L) == {MaxW(W, L), MinW(W, L)}
JcnAdm(G, a, b, W, N) ==
  {LET w0 == t[2] IN
     IF W[a] = N /\ W[b] = N /\ w0 = N THEN <<"zero", 0, 1>>
     ELSE IF w0 * w0 = W[a] * W[b] THEN <<"inf", 0, 1>>
     ELSE <<"ok", w0 * w0, W[a] * W[b]>> :
   t \in {t \in LCHs(G, a, b, FALSE) \X (1..(2 * N)) : t[2] \in C0Weights(W, t[1])}}
\* lin with power-of-two weights W[c] = 2^E[c], N = 2^M: 2(M-e0)/((M-e1)+(M-e2))
LinAdm(G, a, b, E, M) ==
  {LET e0 == t[2] IN
     IF E[a] = M \/ E[b] = M THEN <<0, 1>>
     ELSE <<2 * (M - e0), (M - E[a]) + (M - E[b])>> :
   t \in {t \in LCHs(G, a, b, FALSE) \X (0..M) :
            t[2] \in {SeqMax({E[c] : c \in t[1]}), SeqMin({E[c] : c \in t[1]})}}}
=============================================================================
