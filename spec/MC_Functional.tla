---------------------------- MODULE MC_Functional ----------------------------
(* The functional monitor as a small model: a system in which results ARE a     *)
(* function of (content, call) - Fn - can only produce traces that the monitor  *)
(* of Trace_Functional explains; a system with one seed-dependent call          *)
(* (Leaky) is caught as soon as two processes with different seeds ask it.      *)
EXTENDS Naturals, FiniteSets, TLC
CONSTANTS Keys, Seeds, Leaky
VARIABLES memo, proc, epoch, bad, asked
vars == <<memo, proc, epoch, bad, asked>>
Fn(e, k) == <<e, k>>                        \* any function of content and call
Result(e, k, s) == IF k \in Leaky THEN <<e, k, s>> ELSE Fn(e, k)
Init == memo = [k \in {} |-> 0] /\ proc = (CHOOSE s \in Seeds : TRUE) /\ epoch = 0 /\ bad = {} /\ asked = {}
NewProcess(s) == proc' = s /\ UNCHANGED <<memo, epoch, bad, asked>>
Call(k) ==
  LET r == Result(epoch, k, proc) IN
  /\ asked' = asked \cup {<<k, proc>>}
  /\ IF k \in DOMAIN memo
     THEN /\ memo' = memo
          /\ bad' = IF memo[k] = r THEN bad ELSE bad \cup {k}
     ELSE /\ memo' = [j \in DOMAIN memo \cup {k} |-> IF j = k THEN r ELSE memo[j]]
          /\ bad' = bad
  /\ UNCHANGED <<proc, epoch>>
Mutate == epoch < 1 /\ epoch' = epoch + 1 /\ memo' = [k \in {} |-> 0] /\ asked' = {} /\ UNCHANGED <<proc, bad>>
Next == (\E s \in Seeds : NewProcess(s)) \/ (\E k \in Keys : Call(k)) \/ Mutate
Spec == Init /\ [][Next]_vars
\* a deterministic call is never flagged
NoFalseAlarm == bad \subseteq Leaky
\* a seed-dependent call is flagged once two different seeds have asked it in an epoch
Detects == \A k \in Leaky : (\E s, t \in Seeds : s # t /\ <<k, s>> \in asked /\ <<k, t>> \in asked) => k \in bad
\* read-only calls and new processes never forget or change what is remembered
MemoStable == [][epoch' = epoch => \A k \in DOMAIN memo : k \in DOMAIN memo' /\ memo'[k] = memo[k]]_vars
=============================================================================
