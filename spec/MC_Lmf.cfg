INIT Init
NEXT Next
CHECK_DEADLOCK FALSE
INVARIANT Idempotent
INVARIANT NewerKeepsMore
INVARIANT SameFrom11
INVARIANT IdentityWhenExpressible
INVARIANT OldDropsNewFeatures
