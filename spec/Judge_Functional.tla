--------------------------- MODULE Judge_Functional ---------------------------
(* The "is a function of" monitor (WnFunctional): a record lists every       *)
(* <<key, value>> pair observed over a whole run (keys as declared by the    *)
(* property: what the value may depend on); the pairs must form a function.  *)
EXTENDS Naturals, Sequences, FiniteSets, TLC, Json, IOUtils
Recs == ndJsonDeserialize(IOEnv.TRACE_FILE)
VARIABLE i
Init == i \in 1..Len(Recs)
Next == UNCHANGED i
Rng(s) == {s[k] : k \in DOMAIN s}
Clashes(r) == {p[1] : p \in {p \in Rng(r.pairs) : \E q \in Rng(r.pairs) : q[1] = p[1] /\ q[2] # p[2]}}
Judge == LET r == Recs[i]  c == Clashes(r) IN
  c = {} \/ PrintT(ToJson([k |-> "FAIL", id |-> r.id, c |-> {<<"NotAFunctionOfItsKey", c>>}]))
=============================================================================
