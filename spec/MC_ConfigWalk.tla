---------------------------- MODULE MC_ConfigWalk ----------------------------
(* Behaviours of the project index at the grain of public calls, generated  *)
(* by TLC's simulator and replayed on a real WNConfig object (spec -> code). *)
(* `hist' carries each call with the outcome and index the specification    *)
(* expects after it; a behaviour is printed when it reaches length Depth.   *)
EXTENDS MC_Config, Json
CONSTANT Depth
VARIABLE hist
Step(op, r, c) ==
  /\ Len(hist) < Depth
  /\ idx' = r.idx /\ cached' = c
  /\ hist' = Append(hist, [op |-> op, res |-> r.res, idx |-> r.idx])
Same(res) == [idx |-> idx, res |-> res]
WalkNext ==
  \/ \E id \in PIds \cup {"p:x"}, l \in {None, "A"}, c \in {None, "L"}, e \in {None, "", "E"} :
       Step(<<"add_project", id, "wordnet", l, None, c, e>>,
            AddProject(idx, id, "wordnet", l, None, c, e), cached)
  \/ \E id \in (PIds \cap Ids(idx)) \cup {"zz"}, v \in VerNames \cup {"1:2"}, u \in {None, "", " ", "u1", "u1 u2", "u2  u1"},
        e \in {None, "E"}, c \in {None, "M"} :
       Step(<<"add_version", id, v, u, e, c>>, AddVersion(idx, id, v, u, e, c), cached)
  \/ \E d \in Docs : Step(<<"update", d>>, UpdateIndex(idx, d, 1), cached)
  \/ \E u \in Urls : Step(<<"touch", u>>, Same(Ok(None)), cached \cup {u})
  \/ \E id \in PIds \cup {"zz", "p:x", ""}, v \in VerNames \cup {"", "*", "9", "1:2", ":"} :
       \E arg \in {id, id \o ":" \o v} : Step(<<"info", arg>>, Same(GetInfo(idx, cached, arg)), cached)
  \/ Step(<<"projects">>, Same(Projects(idx, cached)), cached)
WalkInit == Init /\ hist = <<>>
WalkSpec == WalkInit /\ [][WalkNext]_<<idx, cached, hist>>
Emit == Len(hist) < Depth \/ PrintT(ToJson(hist))
=============================================================================
