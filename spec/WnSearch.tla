------------------------------ MODULE WnSearch ------------------------------
(* Word-form search (docs/guides/lemmatization.rst, Wordnet.words/senses/     *)
(* synsets with a form): exact / normalised matching, back-off to the        *)
(* normalised query, lemmatizer candidates, part-of-speech filter.           *)
(* Words: records [id, lex, pos, lemma, forms (seq), senses (seq of          *)
(* <<sense id, synset id, declaring lexicon>>)]; SynPos / SynOwn: synset id  *)
(* -> part of speech / lexicon;                                              *)
(* N: the normalisation table (string -> normalised string).                 *)
EXTENDS Naturals, Sequences, FiniteSets
Rng(s) == {s[k] : k \in DOMAIN s}

StoredForms(w, saf) == IF saf THEN {w.lemma} \cup Rng(w.forms) ELSE {w.lemma}
\* a stored form matches a set of query strings exactly, or - with a
\* normalizer - through its stored normalised form
Matches(N, f, fs, normOn) == f \in fs \/ (normOn /\ N[f] \in fs)
FormHit(N, w, fs, normOn, saf) == \E f \in StoredForms(w, saf) : Matches(N, f, fs, normOn)
PosOK(p, q) == p = "~" \/ p = q

\* one pass for one (pos, forms) candidate.  W holds the words of ALL installed lexicons, S is
\* the set of selected lexicons.  A word is in scope by its own lexicon, a sense by the lexicon
\* that declares it (an extension may hang a sense on a word of its base) and a synset by
\* its own; the forms looked at are always those of the word the sense belongs to.
WordsPass(N, W, S, p, fs, normOn, saf) ==
  {w.id : w \in {w \in W : w.lex \in S /\ PosOK(p, w.pos) /\ FormHit(N, w, fs, normOn, saf)}}
SensesPass(N, W, S, p, fs, normOn, saf) ==
  UNION {{s[1] : s \in {s \in Rng(w.senses) : s[3] \in S}} :
           w \in {w \in W : PosOK(p, w.pos) /\ FormHit(N, w, fs, normOn, saf)}}
SynsetsPass(N, W, S, SynPos, SynOwn, p, fs, normOn, saf) ==
  UNION {{s[2] : s \in {s \in Rng(w.senses) : SynOwn[s[2]] \in S /\ PosOK(p, SynPos[s[2]])}} :
           w \in {w \in W : FormHit(N, w, fs, normOn, saf)}}
Pass(kind, N, W, S, SynPos, SynOwn, p, fs, normOn, saf) ==
  CASE kind = "words" -> WordsPass(N, W, S, p, fs, normOn, saf)
    [] kind = "senses" -> SensesPass(N, W, S, p, fs, normOn, saf)
    [] kind = "synsets" -> SynsetsPass(N, W, S, SynPos, SynOwn, p, fs, normOn, saf)

\* cands: set of <<pos, set of forms>> proposed by the lemmatizer (the query
\* itself under the requested part of speech when there is no lemmatizer or it
\* proposes nothing)
Cands(form, pos, lem) == IF lem = {} THEN {<<pos, {form}>>} ELSE lem
Find(kind, N, W, S, SynPos, SynOwn, form, pos, lem, normOn, saf) ==
  LET cs == Cands(form, pos, lem)
      first == UNION {Pass(kind, N, W, S, SynPos, SynOwn, c[1], c[2], normOn, saf) : c \in cs}
      second == UNION {Pass(kind, N, W, S, SynPos, SynOwn, c[1], {N[x] : x \in c[2]}, normOn, saf) : c \in cs}
  IN IF first # {} \/ ~normOn THEN first ELSE second
=============================================================================
