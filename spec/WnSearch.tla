------------------------------ MODULE WnSearch ------------------------------
(* Word-form search (docs/guides/lemmatization.rst, Wordnet.words/senses/     *)
(* synsets with a form): exact / normalised matching, back-off to the        *)
(* normalised query, lemmatizer candidates, part-of-speech filter.           *)
(* Words: records [id, lex, pos, lemma, forms (seq), senses (seq of          *)
(* <<sense id, synset id>>)]; SynPos: synset id -> part of speech;           *)
(* N: the normalisation table (string -> normalised string).                 *)
EXTENDS Naturals, Sequences, FiniteSets
Rng(s) == {s[k] : k \in DOMAIN s}

StoredForms(w, saf) == IF saf THEN {w.lemma} \cup Rng(w.forms) ELSE {w.lemma}
\* a stored form matches a set of query strings exactly, or - with a
\* normalizer - through its stored normalised form
Matches(N, f, fs, normOn) == f \in fs \/ (normOn /\ N[f] \in fs)
FormHit(N, w, fs, normOn, saf) == \E f \in StoredForms(w, saf) : Matches(N, f, fs, normOn)
PosOK(p, q) == p = "~" \/ p = q

\* one pass for one (pos, forms) candidate
WordsPass(N, W, p, fs, normOn, saf) ==
  {w.id : w \in {w \in W : PosOK(p, w.pos) /\ FormHit(N, w, fs, normOn, saf)}}
SensesPass(N, W, p, fs, normOn, saf) ==
  UNION {{s[1] : s \in Rng(w.senses)} :
           w \in {w \in W : PosOK(p, w.pos) /\ FormHit(N, w, fs, normOn, saf)}}
SynsetsPass(N, W, SynPos, p, fs, normOn, saf) ==
  UNION {{s[2] : s \in {s \in Rng(w.senses) : PosOK(p, SynPos[s[2]])}} :
           w \in {w \in W : FormHit(N, w, fs, normOn, saf)}}
Pass(kind, N, W, SynPos, p, fs, normOn, saf) ==
  CASE kind = "words" -> WordsPass(N, W, p, fs, normOn, saf)
    [] kind = "senses" -> SensesPass(N, W, p, fs, normOn, saf)
    [] kind = "synsets" -> SynsetsPass(N, W, SynPos, p, fs, normOn, saf)

\* cands: set of <<pos, set of forms>> proposed by the lemmatizer (the query
\* itself under the requested part of speech when there is no lemmatizer or it
\* proposes nothing)
Cands(form, pos, lem) == IF lem = {} THEN {<<pos, {form}>>} ELSE lem
Find(kind, N, W, SynPos, form, pos, lem, normOn, saf) ==
  LET cs == Cands(form, pos, lem)
      first == UNION {Pass(kind, N, W, SynPos, c[1], c[2], normOn, saf) : c \in cs}
      second == UNION {Pass(kind, N, W, SynPos, c[1], {N[x] : x \in c[2]}, normOn, saf) : c \in cs}
  IN IF first # {} \/ ~normOn THEN first ELSE second
=============================================================================
