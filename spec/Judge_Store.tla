----------------------------- MODULE Judge_Store -----------------------------
(* Trace validation for the store engine (C05 C06 C07 C19): every record is  *)
(* one operation executed by the real code, [pre, op, ret, post] with pre /  *)
(* post the observed abstract state of the database.  TLC decides whether    *)
(* WnStore explains it.                                                      *)
EXTENDS WnStore, WnProject, IOUtils
LOCAL FSE == INSTANCE FiniteSetsExt
Recs == ndJsonDeserialize(IOEnv.TRACE_FILE)
VARIABLE i
Init == i \in 1..Len(Recs)
Next == UNCHANGED i

Sum(S, f(_)) == FSE!MapThenSumSet(f, S)
DerivedExtras(inst) ==
  {<<Base(e), e, Lex(e).extras_on_base>> :
      e \in {e \in Rng(inst) : IsExt(e) /\ Lex(e).extras_on_base > 0}}
ForeignOf(extras, b) == LET n(t) == t[3] IN Sum({t \in extras : t[1] = b}, n)
ObsForeign(o, b) == LET n(t) == t[2] IN Sum({t \in Rng(o.foreign) : t[1] = b}, n)
\* the model state denoted by an observation (rows an earlier, listed deviation
\* left behind are carried as residue)
ObsSt(o) ==
  LET d == DerivedExtras(o.inst) IN
  [inst |-> o.inst,
   ilis |-> {<<t[1], t[2], t[3]>> : t \in Rng(o.ilis)},
   look |-> [rel |-> Rng(o.look.rel), lexfile |-> Rng(o.look.lexfile),
             status |-> Rng(o.look.status)],
   links |-> {<<t[1], t[2]>> : t \in Rng(o.links)},
   extras |-> d \cup {<<b, "*residue*", ObsForeign(o, b) - ForeignOf(d, b)>> :
                        b \in {b \in Rng(o.inst) : ObsForeign(o, b) > ForeignOf(d, b)}}]
SameCore(st, o) ==
  /\ st.inst = o.inst
  /\ st.ilis = {<<t[1], t[2], t[3]>> : t \in Rng(o.ilis)}
  /\ st.look.rel = Rng(o.look.rel) /\ st.look.lexfile = Rng(o.look.lexfile)
  /\ st.look.status = Rng(o.look.status)
  /\ st.links = {<<t[1], t[2]>> : t \in Rng(o.links)}
SameProj(st, o) ==
  SameCore(st, o) /\ \A b \in Rng(o.inst) : ForeignOf(st.extras, b) = ObsForeign(o, b)

IsExc(ret) == ret # "ok"
OpResult(st, op) ==
  CASE op[1] = "add" -> AddResult(st, op[2])
    [] op[1] = "addbad" -> st          \* a corrupted document is rejected as a whole
    [] op[1] = "remove" -> RemoveResult(st, op[2])
    [] op[1] = "ili" -> AddIliResult(st, op[2])
DevOpResult(st, op) ==
  CASE op[1] = "remove" -> DevRemoveResult(st, op[2])
    [] OTHER -> OpResult(st, op)
\* the documented return behaviour
RetOK(st, op, ret) ==
  CASE op[1] = "add" -> (AddOutcome(st, op[2]) = "fail") <=> IsExc(ret)
    \* (whether add() reports a malformed file is C20's business; here only that
    \* nothing is stored)
    [] op[1] = "addbad" -> IsExc(ret) \/ op[3] = "malformed"
    [] op[1] = "remove" -> IF RemoveOutcome(st, op[2]) = "err" THEN ret = "exc:wn.Error"
                           ELSE ret = "ok"
    [] op[1] = "ili" -> ret = "ok"
NoChangeExpected(st, op) ==
  \/ op[1] = "addbad"
  \/ op[1] = "add" /\ AddOutcome(st, op[2]) \in {"skip", "fail"}
  \/ op[1] = "remove" /\ RemoveOutcome(st, op[2]) = "err"

AuditOK(o) ==
  /\ o.audit.fk = <<>> /\ o.audit.integrity = <<"ok">> /\ o.audit.dangling = <<>>
  /\ o.audit.badlinks = <<>> /\ o.audit.orphans = <<>>
\* requires / extends / extensions as the public API reports them
ApiOK(o) ==
  LET st == ObsSt(o) IN
  /\ {t[1] : t \in Rng(o.api)} = Rng(o.inst)
  /\ \A t \in Rng(o.api) :
       /\ {<<q[1], q[2]>> : q \in Rng(t[2])} =
             {<<p, p \in Installed(st)>> : p \in Requires(t[1])}
       /\ t[3] = Base(t[1])
       /\ Rng(t[4]) = Family(st, t[1]) \ {t[1]}
  /\ {<<t[1], t[2]>> : t \in Rng(o.exts)} = {<<e, Base(e)>> : e \in {e \in Rng(o.inst) : IsExt(e)}}
\* wn.ilis(): the ILIs used by installed lexicons (all of them when nothing is
\* installed) with status and definition, plus one entry per proposed ILI
ApiIlisOK(o) ==
  LET st == ObsSt(o)
      used == {t \in st.ilis : o.inst = <<>> \/
                 \E s \in Installed(st) : \E u \in Rng(Lex(s).ilis) : u[2] = t[1]}
      nprop == LET n(s) == Lex(s).proposed IN Sum(Installed(st), n) IN
    /\ {<<t[1], t[2], t[3]>> : t \in {t \in Rng(o.api_ilis) : t[1] # "~"}} = used
    /\ Cardinality({k \in DOMAIN o.api_ilis : o.api_ilis[k][1] = "~"}) = nprop
    /\ \A k \in DOMAIN o.api_ilis : o.api_ilis[k][1] = "~" => o.api_ilis[k][2] = "proposed"
    \* wn.ilis(status=s): the entries of that status, no others
    /\ \A q \in Rng(o.ilis_by_status) :
          /\ {<<t[1], t[2], t[3]>> : t \in {t \in Rng(q[2]) : t[1] # "~"}} = {t \in used : t[2] = q[1]}
          /\ Cardinality({k \in DOMAIN q[2] : q[2][k][1] = "~"}) = (IF q[1] = "proposed" THEN nprop ELSE 0)
    \* a Synset object kept from an earlier observation reports the ILI a fresh look-up reports
    /\ \A q \in Rng(o.held) : q[3] = q[4]
    \* Wordnet.ili(id): that entry, wn.Error for an unknown id
    /\ \A q \in Rng(o.ilis_by_id) :
          IF \E t \in used : t[1] = q[1] THEN q[2] = "ok" /\ <<q[3], q[4], q[5]>> \in used
          ELSE q[2] = "err"
StructOK(o) == LET st == ObsSt(o) IN
  NoDuplicates(st) /\ ExtHasBase(st) /\ BaseFirst(st) /\ LinksInStep(st)
  /\ LookupsCover(st) /\ IlisCover(st) /\ IliIdsUnique(st)

Faulted(r) == "fault" \in DOMAIN r /\ r.fault.at # "~"
\* prefix atomicity of an interrupted remove: some number of complete
\* per-lexicon transactions
RemovePrefixes(st, arg) == {RemoveSeq(st, Matched(st, arg), n) : n \in 0..Len(Matched(st, arg))}
DevRemovePrefixes(st, arg) == {DevRemoveSeq(st, Matched(st, arg), n) : n \in 0..Len(Matched(st, arg))}

Cl(ok, name) == IF ok THEN {} ELSE {name}
\* a collection of mutually independent packages: the packages are added one
\* after the other in an unspecified order
RECURSIVE AddSeq(_, _)
AddSeq(st, rs) == IF rs = <<>> THEN st ELSE AddSeq(AddResult(st, Head(rs)), Tail(rs))
Perms(rs) == {p \in [DOMAIN rs -> DOMAIN rs] : \A j, k \in DOMAIN rs : p[j] = p[k] => j = k}
CollFails(r) ==
  LET st == ObsSt(r.pre)  rs == r.op[2] IN
    Cl(r.ret = "ok", "ReturnValue")
    \cup Cl(\E p \in Perms(rs) : SameProj(AddSeq(st, [k \in DOMAIN rs |-> rs[p[k]]]), r.post),
            "StateAfter")
\* add(path) for an arbitrary tree of directories / archives / files (WnProject):
\* refused paths raise and change nothing; otherwise the resources found are added
\* one after the other in one of the admissible orders
AddOne(st, res) ==
  IF SubSeq(res, 1, 4) = "lmf:" THEN AddResult(st, SubSeq(res, 5, Len(res)))
  ELSE AddIliResult(st, SubSeq(res, 5, Len(res)))
RECURSIVE AddAll(_, _)
AddAll(st, rs) == IF rs = <<>> THEN st ELSE AddAll(AddOne(st, Head(rs)), Tail(rs))
TreeFails(r) ==
  LET st == ObsSt(r.pre)  tree == r.op[2] IN
    IF Refused(tree)
    THEN Cl(IsExc(r.ret), "RefusedPathRaises") \cup Cl(r.post.rawsha = r.pre.rawsha, "RefusedPathChangesNothing")
    ELSE Cl(r.ret = "ok", "ReturnValue")
         \cup Cl(\E rs \in Found(tree) : SameProj(AddAll(st, rs), r.post), "StateAfter")
NormalFails(r) ==
  IF r.op[1] = "addcoll" THEN CollFails(r) ELSE
  IF r.op[1] = "addtree" THEN TreeFails(r) ELSE
  LET st == ObsSt(r.pre) IN
    Cl(RetOK(st, r.op, r.ret), "ReturnValue")
    \cup Cl(SameProj(OpResult(st, r.op), r.post), "StateAfter")
    \cup Cl(NoChangeExpected(st, r.op) => r.post.rawsha = r.pre.rawsha, "UnchangedWhenNothingToDo")
\* a collection is several resources, each added in a transaction of its own: a
\* fault leaves some of its packages completely added and the others not at all
CollPrefixes(st, rs) ==
  {AddSeq(st, [k \in 1..n |-> rs[p[k]]]) : <<p, n>> \in Perms(rs) \X (0..Len(rs))}
FaultFails(r) ==
  LET st == ObsSt(r.pre) IN
    Cl(IsExc(r.ret), "FaultPropagates")
    \cup (IF r.op[1] = "addcoll"
          THEN Cl(\E s \in CollPrefixes(st, r.op[2]) : SameProj(s, r.post), "CollectionAtomicPerPackage")
          ELSE IF r.op[1] = "remove"
          THEN Cl(\E s \in RemovePrefixes(st, r.op[2]) : SameProj(s, r.post), "RemoveAtomicPerLexicon")
          ELSE IF r.fault.kind = "close"
          THEN Cl(r.post.rawsha = r.pre.rawsha \/ SameProj(OpResult(st, r.op), r.post), "AtomicOutcome")
          ELSE Cl(r.post.rawsha = r.pre.rawsha, "FailedCallLeavesDatabaseUntouched"))
ThenFails(r) ==
  IF "then" \notin DOMAIN r THEN {} ELSE
  LET st == ObsSt(r.post) IN
    Cl(RetOK(st, r.then.op, r.then.ret), "UsableAfterFailure")
    \cup Cl(SameProj(OpResult(st, r.then.op), r.then.post) \/
            SameProj(DevOpResult(st, r.then.op), r.then.post), "UsableAfterFailureState")
    \cup Cl(AuditOK(r.then.post), "AuditAfterRecovery")
\* What a second connection saw at the callbacks of the call (isolation): committed
\* states only -- for add / ILI files the state before until the one commit, then the
\* state after; for remove the states after 0, 1, 2, ... complete per-lexicon
\* transactions, in that order.  "busy" views (SQLite refusing the reader) say nothing.
SeenViews(r) == LET P(w) == w[3] = "seen" IN SelectSeq(r.views, P)
SameView(v, o) == v.inst = o.inst /\ v.ilis = o.ilis /\ v.look = o.look /\ v.digests = o.digests
                  /\ v.dangling = <<>>
MinOf(S) == CHOOSE n \in S : \A m \in S : n <= m
ViewsFails(r) ==
  IF "views" \notin DOMAIN r THEN {} ELSE
  LET vs == SeenViews(r)  st == ObsSt(r.pre) IN
  IF r.op[1] = "remove" /\ RemoveOutcome(st, r.op[2]) = "ok"
  THEN LET ms == Matched(st, r.op[2])
           Idx(v) == {n \in 0..Len(ms) : RemoveSeq(st, ms, n).inst = v.inst}
           Whole(v) == /\ v.ilis = r.pre.ilis /\ v.look = r.pre.look /\ v.dangling = <<>>
                       /\ Rng(v.digests) = {d \in Rng(r.pre.digests) : d[1] \in Rng(v.inst)} IN
         Cl(\A k \in DOMAIN vs : Idx(vs[k][4]) # {} /\ Whole(vs[k][4]), "ReaderSeesCommittedStatesOnly")
         \cup Cl(\A j, k \in DOMAIN vs : (j < k /\ Idx(vs[j][4]) # {} /\ Idx(vs[k][4]) # {}) =>
                    MinOf(Idx(vs[j][4])) <= MinOf(Idx(vs[k][4])), "ReaderSeesCommitsInOrder")
  ELSE IF r.op[1] = "addcoll"
  \* a collection is several resources, each committed by itself: a reader may see the state
  \* after any number of whole packages, never a part of one
  THEN Cl(\A k \in DOMAIN vs : vs[k][4].dangling = <<>> /\
                \E s \in CollPrefixes(st, r.op[2]) : s.inst = vs[k][4].inst,
          "ReaderSeesCommittedStatesOnly")
       \cup Cl(\A j, k \in DOMAIN vs : j < k => Len(vs[j][4].inst) <= Len(vs[k][4].inst),
               "ReaderSeesCommitsInOrder")
  ELSE Cl(\A k \in DOMAIN vs : SameView(vs[k][4], r.pre) \/ SameView(vs[k][4], r.post),
          "ReaderSeesCommittedStatesOnly")
       \cup Cl(\A j, k \in DOMAIN vs : (j < k /\ SameView(vs[j][4], r.post)) => SameView(vs[k][4], r.post),
               "ReaderSeesCommitsInOrder")
       \cup Cl(r.ret # "ok" => \A k \in DOMAIN vs : SameView(vs[k][4], r.pre), "FailedCallNeverVisible")
CommonFails(r) ==
  ViewsFails(r) \cup
  Cl(AuditOK(r.post), "Audit") \cup Cl(ApiOK(r.post), "ApiLinks") \cup Cl(ApiIlisOK(r.post), "ApiIlis") \cup Cl(StructOK(r.post), "Structure")
  \cup Cl("inputs_unchanged" \in DOMAIN r => r.inputs_unchanged, "InputsUnchanged")
  \cup Cl("tmp_left" \in DOMAIN r => r.tmp_left = <<>>, "NoTemporaryFilesLeft")
  \* a step of a behaviour generated by TLC from MC_StoreWalk: the code arrives
  \* where the specification said it would
  \cup Cl("exp" \in DOMAIN r =>
            (r.exp.inst = r.post.inst /\ ((r.exp.outcome \in {"ok", "skip"}) <=> r.ret = "ok")),
          "SpecBehaviourReplayed")

\* known deviation: tag / pronunciation rows of a removed extension stay
DevExtensionExtrasSurviveRemoval(r) ==
  LET st == ObsSt(r.pre) IN
  /\ r.op[1] = "remove"
  /\ IF Faulted(r)
     THEN /\ ~\E s \in RemovePrefixes(st, r.op[2]) : SameProj(s, r.post)
          /\ \E s \in DevRemovePrefixes(st, r.op[2]) : SameProj(s, r.post)
     ELSE /\ ~SameProj(OpResult(st, r.op), r.post)
          /\ SameProj(DevOpResult(st, r.op), r.post)
Fails(r) ==
  IF "timeout" \in DOMAIN r THEN {"Terminates"} ELSE
  LET f == (IF Faulted(r) THEN FaultFails(r) ELSE NormalFails(r)) \cup ThenFails(r) \cup CommonFails(r) IN
    IF DevExtensionExtrasSurviveRemoval(r) THEN f \ {"StateAfter", "RemoveAtomicPerLexicon"} ELSE f
Devs(r) ==
  IF "timeout" \in DOMAIN r THEN {} ELSE
  IF DevExtensionExtrasSurviveRemoval(r) THEN {"DevExtensionExtrasSurviveRemoval"} ELSE {}
Judge == LET r == Recs[i]  f == Fails(r)  d == Devs(r) IN
  /\ f = {} \/ PrintT(ToJson([k |-> "FAIL", id |-> r.id, c |-> f]))
  /\ d = {} \/ PrintT(ToJson([k |-> "DEV", id |-> r.id, d |-> d]))
=============================================================================
