SPECIFICATION Spec
CONSTANT MaxLevel = 5
CONSTRAINT Bound
INVARIANT InvCacheServed
INVARIANT InvDbOnlyGood
INVARIANT InvMirrors
INVARIANT InvHitsAreLocal
INVARIANT InvRepeatable
INVARIANT InvBadFileSticks
PROPERTY PropDb
CHECK_DEADLOCK FALSE
