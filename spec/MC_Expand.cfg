SPECIFICATION Spec
CHECK_DEADLOCK FALSE
INVARIANT ExpandEmptyIsOwn
INVARIANT DefaultExpandIsInstalledDeps
INVARIANT BorrowedNeedIli
