CONSTANT MaxLen = 4
INIT Init
NEXT Next
CHECK_DEADLOCK FALSE
INVARIANT UnionOfMembers
INVARIANT BareIsOne
INVARIANT NeverUnmatched
INVARIANT StarIsAll
INVARIANT ExactIsExact
INVARIANT AllVersions
INVARIANT ErrorRule
