------------------------------- MODULE WnQuery -------------------------------
(* The query layer over a relational world (harness/worlds.py tables):       *)
(* Wordnet(lexicon, lang, expand) -> selected lexicons S, expand lexicons E, *)
(* default mode; the lexicons an entity may see (LexIds); navigation;        *)
(* relations incl. those an in-scope extension adds to a base entity;        *)
(* relations borrowed through expand lexicons by ILI with placeholders;      *)
(* closures, relation paths, translation.                                    *)
(* Entities are <<owner specifier, id>>; a placeholder synset is <<"*", ili>>.*)
EXTENDS WnSelect, TLC

Rng(s) == {s[k] : k \in DOMAIN s}
Last(s) == s[Len(s)]

(* ---- the installed world ---------------------------------------------- *)
\* T: the tables; inst: sequence of installed lexicon specifiers in order
LexRow(T, s) == CHOOSE l \in Rng(T.lex) : l[1] = s
Db(T, inst) == [k \in DOMAIN inst |-> [id |-> LexRow(T, inst[k])[2],
                                       version |-> LexRow(T, inst[k])[3],
                                       lang |-> LexRow(T, inst[k])[4]]]
BaseOf(T, s) == LexRow(T, s)[5]
RequiresOf(T, s) == Rng(LexRow(T, s)[6])
RECURSIVE BasesOf(_, _, _)
BasesOf(T, I, s) == IF BaseOf(T, s) = "~" \/ BaseOf(T, s) \notin I THEN {}
                    ELSE {BaseOf(T, s)} \cup BasesOf(T, I, BaseOf(T, s))
RECURSIVE ExtsOfSet(_, _, _)
ExtsOfSet(T, I, S) == LET more == {e \in I : BaseOf(T, e) \in S} \ S IN
                        IF more = {} THEN S ELSE ExtsOfSet(T, I, S \cup more)
\* own lexicon, its (transitive) bases and its (transitive) extensions
Family(T, I, s) == {s} \cup BasesOf(T, I, s) \cup ExtsOfSet(T, I, {s})

\* all lexicons connected to s through "extends" (multi-hop traversals may move from
\* an extension to its base and on to the base's other extensions)
RECURSIVE ComponentOf(_, _, _)
ComponentOf(T, I, S) ==
  LET more == UNION {Family(T, I, z) : z \in S} \ S IN
    IF more = {} THEN S ELSE ComponentOf(T, I, S \cup more)
Component(T, I, s) == ComponentOf(T, I, {s})

(* ---- Wordnet(lexicon, lang, expand) ----------------------------------- *)
\* cfg: [lexicon, lang, expand] with "~" = argument not given, expand "-" = ''
IsDefault(cfg) == cfg.lexicon = "~" /\ cfg.lang = "~"
LexArg(cfg) == IF cfg.lexicon = "~" THEN "*" ELSE cfg.lexicon
SpecsAt(inst, ks) == {inst[k] : k \in ks}
Sel(T, inst, cfg) == SpecsAt(inst, Select(Db(T, inst), LexArg(cfg), cfg.lang))
DeclaredDeps(T, inst, cfg) == UNION {RequiresOf(T, s) : s \in Sel(T, inst, cfg)}
Exp(T, inst, cfg) ==
  IF cfg.expand = "~"
  THEN IF IsDefault(cfg) THEN Rng(inst) ELSE DeclaredDeps(T, inst, cfg) \cap Rng(inst)
  ELSE IF cfg.expand = "-" THEN {}
  ELSE SpecsAt(inst, Select(Db(T, inst), cfg.expand, "~"))
Warned(T, inst, cfg) ==
  IF cfg.expand = "~" /\ ~IsDefault(cfg) THEN DeclaredDeps(T, inst, cfg) \ Rng(inst) ELSE {}
ConstructorFails(T, inst, cfg) ==
  \/ SelectError(Db(T, inst), LexArg(cfg), cfg.lang)
  \/ cfg.expand \notin {"~", "-"} /\ SelectError(Db(T, inst), cfg.expand, "~")
\* a wordnet: W = [T, I (installed set), S, E, default]
Wn(T, inst, cfg) == [T |-> T, I |-> Rng(inst), inst |-> inst, S |-> Sel(T, inst, cfg),
                     E |-> Exp(T, inst, cfg), default |-> IsDefault(cfg)]
\* the lexicons an entity owned by lexicon o may see
LexIds(W, o) == IF W.default THEN Family(W.T, W.I, o) ELSE W.S
\* what the wordnet itself searches when it resolves an identifier
AllIds(W) == IF W.default THEN W.I ELSE W.S

(* ---- entities ---------------------------------------------------------- *)
Synsets(W) == {<<x[1], x[2]>> : x \in {x \in Rng(W.T.synsets) : x[1] \in W.I}}
SynRow(W, y) == CHOOSE x \in Rng(W.T.synsets) : x[1] = y[1] /\ x[2] = y[2]
IliOf(W, y) == IF y[1] = "*" THEN y[2] ELSE SynRow(W, y)[4]
HasIli(W, y) == IliOf(W, y) \notin {"", "in"}
SenseRows(W) == {x \in Rng(W.T.senses) : x[1] \in W.I}
SenseRow(W, s) == CHOOSE x \in SenseRows(W) : x[1] = s[1] /\ x[2] = s[2]
WordsOf(W) == {<<x[1], x[2]>> : x \in {x \in Rng(W.T.entries) : x[1] \in W.S}}
SensesOf(W) == {<<x[1], x[2]>> : x \in {x \in SenseRows(W) : x[1] \in W.S}}
SynsetsOf(W) == {y \in Synsets(W) : y[1] \in W.S}

(* ---- navigation -------------------------------------------------------- *)
\* the word a sense was declared under / the synset it references
DeclWord(W, s) == <<SenseRow(W, s)[3], SenseRow(W, s)[4]>>
DeclSynset(W, s) == <<SenseRow(W, s)[5], SenseRow(W, s)[6]>>
\* senses of a word / members of a synset visible from it, with their ranks
WordSenseRows(W, e) == {x \in SenseRows(W) : x[3] = e[1] /\ x[4] = e[2] /\ x[1] \in LexIds(W, e[1])}
SynsetSenseRows(W, y) == {x \in SenseRows(W) : x[5] = y[1] /\ x[6] = y[2] /\ x[1] \in LexIds(W, y[1])}
\* a list is an admissible rendering of a set of rows ordered by rank (ties free)
InRankOrder(rows, rankcol, lst) ==
  /\ {<<x[1], x[2]>> : x \in rows} = Rng(lst) /\ Len(lst) = Cardinality(rows)
  /\ \A j, k \in DOMAIN lst : j < k =>
        (CHOOSE x \in rows : <<x[1], x[2]>> = lst[j])[rankcol]
          <= (CHOOSE x \in rows : <<x[1], x[2]>> = lst[k])[rankcol]

\* further forms / lemma tags of a word that are visible from it
FormRows(W, e) == {f \in Rng(W.T.forms) : f[2] = e[1] /\ f[3] = e[2] /\ f[1] \in W.I}
VisibleForms(W, e) == {f[4] : f \in {f \in FormRows(W, e) : f[1] \in LexIds(W, e[1])}}
AllForms(W, e) == {f[4] : f \in FormRows(W, e)}
TagRows(W, e) == {t \in Rng(W.T.tags) : t[2] = e[1] /\ t[3] = e[2] /\ t[1] \in W.I}
VisibleTags(W, e) == {t[4] : t \in {t \in TagRows(W, e) : t[1] \in LexIds(W, e[1])}}
AllTags(W, e) == {t[4] : t \in TagRows(W, e)}
\* ... including those of extensions that were installed once (tags are ownerless)
EverTags(W, e) == {t[4] : t \in {t \in Rng(W.T.tags) : t[2] = e[1] /\ t[3] = e[2]}}
LemmaOf(W, e) == (CHOOSE x \in Rng(W.T.entries) : x[1] = e[1] /\ x[2] = e[2])[4]

\* examples / definitions / counts visible from an entity: rows
\* <<owner, target owner, target id, value>> whose owner the entity may see
TextRows(W, table, e) == {k \in DOMAIN table : /\ table[k][2] = e[1] /\ table[k][3] = e[2]
                                               /\ table[k][1] \in W.I
                                               /\ table[k][1] \in LexIds(W, e[1])}
PosIn(inst, s) == CHOOSE k \in DOMAIN inst : inst[k] = s
\* the first visible definition: lexicons in order of addition, then document order
FirstDef(W, y) ==
  LET ks == TextRows(W, W.T.defs, y) IN
    IF ks = {} THEN "~"
    ELSE W.T.defs[CHOOSE k \in ks : \A j \in ks :
            \/ PosIn(W.inst, W.T.defs[k][1]) < PosIn(W.inst, W.T.defs[j][1])
            \/ (W.T.defs[k][1] = W.T.defs[j][1] /\ k <= j)][4]

(* ---- own relations ------------------------------------------------------ *)
TypeOK(types, t) == types = {} \/ "*" \in types \/ t \in types
\* relation rows <<lo, so, sid, type, to, tid, dctype, note>> visible from x
VisibleRows(W, table, x, types) ==
  {r \in Rng(table) : /\ r[2] = x[1] /\ r[3] = x[2]
                      /\ r[1] \in LexIds(W, x[1]) /\ r[5] \in LexIds(W, x[1])
                      /\ r[1] \in W.I /\ r[5] \in W.I
                      /\ TypeOK(types, r[4])}
OwnSynRows(W, x, types) == IF x[1] = "*" THEN {} ELSE VisibleRows(W, W.T.ssrels, x, types)
OwnSenseRows(W, s, types) == VisibleRows(W, W.T.srels, s, types)
OwnSenseSynRows(W, s, types) == VisibleRows(W, W.T.sssrels, s, types)
\* relation key of relation_map(): name, source id, target id, lexicon, dc:type
KeyOf(r) == <<r[4], r[3], r[6], r[1], r[7]>>
TargetOf(r) == <<r[5], r[6]>>

(* ---- relations borrowed through expand lexicons ------------------------ *)
\* lexicon that decides where a (possibly placeholder) synset looks: a
\* placeholder inherits the lexicon of the synset it was reached from
ExpandSources(W, x, xili) ==
  {y \in Synsets(W) : y[1] \in W.E /\ y # x /\ HasIli(W, y) /\ IliOf(W, y) = xili}
\* <<relation row of the expand lexicon, mapped target>>
ExpandedPairs(W, x, home, types) ==
  IF W.E = {} \/ ~HasIli(W, x) THEN {}
  ELSE UNION {
    UNION {
      LET t == TargetOf(r)
          locals == {z \in Synsets(W) : z[1] \in LexIds(W, home) /\ HasIli(W, z)
                                        /\ IliOf(W, z) = IliOf(W, t)} IN
        IF ~HasIli(W, t) THEN {}
        ELSE IF locals # {} THEN {<<r, z>> : z \in locals}
        ELSE {<<r, <<"*", IliOf(W, t)>>>>}
      : r \in {r \in Rng(W.T.ssrels) : /\ r[2] = y[1] /\ r[3] = y[2]
                                         /\ r[1] \in W.E /\ r[5] \in W.E /\ TypeOK(types, r[4])}}
    : y \in ExpandSources(W, x, IliOf(W, x))}
\* all <<key, target>> pairs of a synset x whose home lexicon is `home'
SynPairs(W, x, home, types) ==
  {<<KeyOf(r), TargetOf(r)>> : r \in OwnSynRows(W, x, types)}
  \cup {<<KeyOf(p[1]), p[2]>> : p \in ExpandedPairs(W, x, home, types)}
OwnPairs(W, x, types) == {<<KeyOf(r), TargetOf(r)>> : r \in OwnSynRows(W, x, types)}
HomeOf(x, from) == IF x[1] = "*" THEN from ELSE x[1]
Related(W, x, home, types) == {p[2] : p \in SynPairs(W, x, home, types)}

(* ---- closure and relation paths (synsets, own + expanded) --------------- *)
RECURSIVE Reach(_, _, _, _, _)
Reach(W, home, types, frontier, seen) ==
  LET nxt == (UNION {Related(W, y, home, types) : y \in frontier}) \ seen IN
    IF nxt = {} THEN seen ELSE Reach(W, home, types, nxt, seen \cup nxt)
Closure(W, x, types) == Reach(W, x[1], types, {x}, {})
\* `home' is the lexicon that decides what the last node of p may see: its own
\* lexicon, or for a placeholder the lexicon of the synset it was reached from
RECURSIVE ExtPath(_, _, _, _, _)
ExtPath(W, home, types, p, vis) ==
  LET nxt == Related(W, Last(p), home, types) \ vis IN
    IF nxt = {} THEN {p}
    ELSE UNION {ExtPath(W, HomeOf(y, home), types, Append(p, y), vis \cup {y}) : y \in nxt}
RelPaths(W, x, types) ==
  UNION {ExtPath(W, HomeOf(t, x[1]), types, <<t>>, {x, t}) : t \in Related(W, x, x[1], types) \ {x}}
\* relation_paths(end=e): the simple paths that stop when they first reach e
RECURSIVE EndPath(_, _, _, _, _, _)
EndPath(W, home, types, p, vis, e) ==
  IF Last(p) = e THEN {p}
  ELSE LET nxt == Related(W, Last(p), home, types) \ vis IN
         UNION {EndPath(W, HomeOf(y, home), types, Append(p, y), vis \cup {y}, e) : y \in nxt}
EndPaths(W, x, types, e) ==
  UNION {EndPath(W, HomeOf(t, x[1]), types, <<t>>, {x, t}, e) : t \in Related(W, x, x[1], types) \ {x}}
\* the same for senses (no expansion)
SenseRelated(W, s, types) == {TargetOf(r) : r \in OwnSenseRows(W, s, types)}
RECURSIVE SenseReach(_, _, _, _)
SenseReach(W, types, frontier, seen) ==
  LET nxt == (UNION {SenseRelated(W, y, types) : y \in frontier}) \ seen IN
    IF nxt = {} THEN seen ELSE SenseReach(W, types, nxt, seen \cup nxt)
SenseClosure(W, s, types) == SenseReach(W, types, {s}, {})

(* ---- translation --------------------------------------------------------- *)
Translate(W, x, target) ==
  IF ~HasIli(W, x) THEN {}
  ELSE {z \in Synsets(W) : z[1] \in SpecsAt(W.inst, Select(Db(W.T, W.inst), target, "~"))
                           /\ HasIli(W, z) /\ IliOf(W, z) = IliOf(W, x)}
\* senses of the target lexicons whose synset shares the ILI: the image of the
\* synset translation (each translated synset is seen by a wordnet of the targets)
TargetSpecs(W, target) == SpecsAt(W.inst, Select(Db(W.T, W.inst), target, "~"))
TranslateSenses(W, y, target) ==
  {<<x[1], x[2]>> : x \in {x \in SenseRows(W) :
       <<x[5], x[6]>> \in Translate(W, y, target) /\ x[1] \in TargetSpecs(W, target)}}
=============================================================================
