CONSTANT Depth = 14
SPECIFICATION Spec
CHECK_DEADLOCK FALSE
INVARIANT Emit
INVARIANT ForeignUntouched
