INIT Init
NEXT Next
CHECK_DEADLOCK FALSE
INVARIANT Total
INVARIANT SameResources
INVARIANT TarIsTransparent
INVARIANT PackageRule
INVARIANT CollectionRule
INVARIANT CompressedRule
