------------------------------ MODULE Judge_C09 ------------------------------
(* Trace validation for C09: recorded searches against WnSearch.              *)
EXTENDS WnSearch, Json, IOUtils, TLC
Recs == ndJsonDeserialize(IOEnv.TRACE_FILE)
VARIABLE i
Init == i \in 1..Len(Recs)
Next == UNCHANGED i
\* words rows: <<id, lex, pos, lemma, <<forms>>, <<<<sense, synset>>...>>>>
WordsOf(r) == {[id |-> w[1], lex |-> w[2], pos |-> w[3], lemma |-> w[4], forms |-> w[5],
                senses |-> w[6]] : w \in Rng(r.words)}
NormOf(r) == [s \in {t[1] : t \in Rng(r.norm)} |->
                (CHOOSE t \in Rng(r.norm) : t[1] = s)[2]]
SynPosOf(r) == [s \in {t[1] : t \in Rng(r.synpos)} |->
                (CHOOSE t \in Rng(r.synpos) : t[1] = s)[2]]
SynOwnOf(r) == [s \in {t[1] : t \in Rng(r.synpos)} |->
                (CHOOSE t \in Rng(r.synpos) : t[1] = s)[3]]
\* call rows: <<kind, form, pos, normOn, saf, lemkind, <<<<pos, <<forms>>>>...>>, st, <<ids>>>>
LemOf(t) == {<<c[1], Rng(c[2])>> : c \in Rng(t[7])}
Expected(r, t) == Find(t[1], NormOf(r), WordsOf(r), Rng(r.scope), SynPosOf(r), SynOwnOf(r), t[2], t[3], LemOf(t), t[4], t[5])
CallOK(r, t) == t[8] = "ok" /\ Rng(t[9]) = Expected(r, t)
NoDupOK(t) == Len(t[9]) = Cardinality(Rng(t[9]))
Rows(S, P(_), name) == LET bad == {t \in S : ~P(t)} IN
                         IF bad = {} THEN {} ELSE {<<name, CHOOSE t \in bad : TRUE>>}
Fails(r) ==
  IF "timeout" \in DOMAIN r THEN {<<"Terminates", "-">>} ELSE
  LET P1(t) == CallOK(r, t)  P2(t) == NoDupOK(t) IN
    Rows(Rng(r.calls), P1, "SearchResult") \cup Rows(Rng(r.calls), P2, "NoDuplicates")
Judge == LET r == Recs[i]  f == Fails(r) IN
  f = {} \/ PrintT(ToJson([k |-> "FAIL", id |-> r.id, c |-> f]))
=============================================================================
