----------------------------- MODULE Judge_Query -----------------------------
(* Trace validation for the query engine (C04 C10 C11 C12): a record is a      *)
(* world (tables), the installed lexicons and, per Wordnet configuration, the  *)
(* results of a battery of public calls.  r.groups says which clause groups    *)
(* ("ctor", "nav", "rel", "exp", "scope") are judged.                          *)
EXTENDS WnQuery, Json, IOUtils
Recs == ndJsonDeserialize(IOEnv.TRACE_FILE)
VARIABLE i
Init == i \in 1..Len(Recs)
Next == UNCHANGED i

Ent(e) == <<e[1], e[2]>>
Ents(lst) == {Ent(e) : e \in Rng(lst)}
NoDup(lst) == Len(lst) = Cardinality(Rng(lst))
Types(a) == Rng(a)

(* ---- constructor --------------------------------------------------------- *)
CtorOK(T, inst, o) ==
  IF ConstructorFails(T, inst, o.cfg) THEN o.st = "err"
  ELSE /\ o.st = "ok"
       /\ Rng(o.lexicons) = Sel(T, inst, o.cfg)
       /\ Rng(o.expanded) = Exp(T, inst, o.cfg)
       /\ Rng(o.warned) = Warned(T, inst, o.cfg)
\* Lexicon.describe(): words and synsets per part of speech, senses, ILIs (distinct
\* real ILIs of the lexicon's synsets plus its proposed ones)
\* desc rows: <<spec, st, <<words, <<<<pos, n>>...>>>>, senses, <<synsets, <<<<pos, n>>...>>>>, ilis, first line>>
CountBy(S, col) == {<<p, Cardinality({x \in S : x[col] = p})>> : p \in {x[col] : x \in S}}
DescribeOK(W, o) == \A t \in Rng(o.desc) :
  LET l == t[1]
      es == {x \in Rng(W.T.entries) : x[1] = l}
      ys == {x \in Rng(W.T.synsets) : x[1] = l}
      ss == {x \in Rng(W.T.senses) : x[1] = l} IN
  /\ t[2] = "ok" /\ t[7] = l
  /\ t[3][1] = Cardinality(es) /\ {<<q[1], q[2]>> : q \in Rng(t[3][2])} = CountBy(es, 3)
  /\ t[4] = Cardinality(ss)
  /\ t[5][1] = Cardinality(ys) /\ {<<q[1], q[2]>> : q \in Rng(t[5][2])} = CountBy(ys, 3)
  /\ t[6] = Cardinality({y[4] : y \in {y \in ys : y[4] \notin {"", "in"}}})
             + Cardinality({y \in ys : y[4] = "in"})
ListsOK(W, o) ==
  /\ Ents(o.words) = WordsOf(W) /\ NoDup(o.words)
  /\ Ents(o.senses) = SensesOf(W) /\ NoDup(o.senses)
  /\ Ents(o.synsets) = SynsetsOf(W) /\ NoDup(o.synsets)

(* ---- look-ups by identifier ------------------------------------------------ *)
\* LK rows: <<kind, id, Wordnet.kind(id), wn.kind(id, lexicon=, lang=)>>: an entity of
\* the selection with that identifier, wn.Error when there is none
LookupOK(W, t) ==
  LET pool == CASE t[1] = "word" -> WordsOf(W) [] t[1] = "sense" -> SensesOf(W) [] OTHER -> SynsetsOf(W)
      hits == {e \in pool : e[2] = t[2]}
      Good(v) == IF hits = {} THEN v[1] = "err" ELSE v[1] = "ok" /\ <<v[2], v[3]>> \in hits IN
    Good(t[3]) /\ Good(t[4])
\* wn.words() / wn.senses() / wn.synsets() with the same lexicon / lang arguments
ModuleListsOK(W, o) ==
  /\ o.mlists[1][1] = "ok" /\ Ents(o.mlists[1][2]) = WordsOf(W) /\ NoDup(o.mlists[1][2])
  /\ o.mlists[2][1] = "ok" /\ Ents(o.mlists[2][2]) = SensesOf(W) /\ NoDup(o.mlists[2][2])
  /\ o.mlists[3][1] = "ok" /\ Ents(o.mlists[3][2]) = SynsetsOf(W) /\ NoDup(o.mlists[3][2])

\* RT rows: <<kind, query, owner, id, via search A, via listing A, via search B, via listing B>>:
\* an entity found by a form search reports what the same entity reports when it was listed
RouteOK(t) == t[5] = t[6] /\ t[7] = t[8]

(* ---- navigation (C10) ---------------------------------------------------- *)
\* the scope in which an identifier of entity x may be resolved
ScopeOf(W, x) == IF W.default THEN Family(W.T, W.I, x[1]) ELSE W.S
\* v = <<st, owner, id>>: the declared target when it is in scope; otherwise
\* an error, or something inside the selection (C04 decides that)
RefOK(W, x, decl, v) ==
  IF decl[1] \in ScopeOf(W, x) THEN v[1] = "ok" /\ <<v[2], v[3]>> = decl
  ELSE v[1] = "err" \/ (v[1] = "ok" /\ v[2] \in AllIds(W))
\* known deviation: the identifier is looked up in all selected lexicons and the
\* first hit (in order of addition) wins - another version of the lexicon
FirstOwner(W, ids, table, id) ==
  LET ks == {k \in DOMAIN W.inst : W.inst[k] \in ids /\
               \E x \in Rng(table) : x[1] = W.inst[k] /\ x[2] = id} IN
    IF ks = {} THEN "~" ELSE W.inst[CHOOSE k \in ks : \A j \in ks : k <= j]
DevRefOtherVersion(W, x, decl, v, table) ==
  /\ decl[1] \in ScopeOf(W, x) /\ ~RefOK(W, x, decl, v)
  /\ v[1] = "ok" /\ v[3] = decl[2] /\ v[2] # decl[1]
  /\ v[2] = FirstOwner(W, AllIds(W), table, decl[2])
\* S rows: <<o, id, word, synset, ...>>
SenseNavOK(W, t) ==
  /\ RefOK(W, Ent(t), DeclWord(W, Ent(t)), t[3])
  /\ RefOK(W, Ent(t), DeclSynset(W, Ent(t)), t[4])
SenseNavDev(W, t) ==
  /\ RefOK(W, Ent(t), DeclWord(W, Ent(t)), t[3])
       \/ DevRefOtherVersion(W, Ent(t), DeclWord(W, Ent(t)), t[3], W.T.entries)
  /\ RefOK(W, Ent(t), DeclSynset(W, Ent(t)), t[4])
       \/ DevRefOtherVersion(W, Ent(t), DeclSynset(W, Ent(t)), t[4], W.T.synsets)
\* W rows: <<o, id, senses, synsets, derived, forms, tags>>
\* what sense.word() / sense.synset() returned for sense e in this observation
SRow(o, e) == CHOOSE u \in Rng(o.S) : Ent(u) = e
HasSRow(o, e) == \E u \in Rng(o.S) : Ent(u) = e
WordNavOK(W, o, t) ==
  LET rows == WordSenseRows(W, Ent(t))
      ss == t[3][2] IN
  /\ t[3][1] = "ok" /\ InRankOrder(rows, 7, [k \in DOMAIN ss |-> Ent(ss[k])])
  \* word.synsets() is the image of word.senses() under sense.synset(), in order
  /\ (\A k \in DOMAIN ss : HasSRow(o, Ent(ss[k]))) =>
       IF \A k \in DOMAIN ss : SRow(o, Ent(ss[k]))[4][1] = "ok"
       THEN /\ t[4][1] = "ok" /\ Len(t[4][2]) = Len(ss)
            /\ \A k \in DOMAIN ss : Ent(t[4][2][k]) = <<SRow(o, Ent(ss[k]))[4][2], SRow(o, Ent(ss[k]))[4][3]>>
       ELSE t[4][1] = "err"
\* forms and lemma tags of a word: the lemma first, then exactly the forms that
\* lexicons visible from the word declare for it
FormsOK(W, t) ==
  /\ Len(t[6]) >= 1 /\ t[6][1] = LemmaOf(W, Ent(t))
  /\ Rng(SubSeq(t[6], 2, Len(t[6]))) = VisibleForms(W, Ent(t))
  /\ Len(t[6]) = 1 + Cardinality(VisibleForms(W, Ent(t)))
TagsOK(W, t) == Rng(t[7]) = VisibleTags(W, Ent(t))
\* known deviations: forms / tags that an extension OUTSIDE the selection
\* attached to the entry are reported too (no lexicon filter on forms; tags
\* have no owner column)
DevFormsOfUnselectedExtension(W, t) ==
  /\ ~FormsOK(W, t) /\ Len(t[6]) >= 1 /\ t[6][1] = LemmaOf(W, Ent(t))
  /\ Rng(SubSeq(t[6], 2, Len(t[6]))) = AllForms(W, Ent(t))
DevTagsOfUnselectedExtension(W, t) ==
  ~TagsOK(W, t) /\ VisibleTags(W, Ent(t)) \subseteq Rng(t[7]) /\ Rng(t[7]) \subseteq EverTags(W, Ent(t))
\* A rows: <<kind, o, id, <<examples>>, definition, <<counts>>>>: exactly what the
\* lexicons visible from the entity declare for it
TextsOK(W, t) ==
  LET e == <<t[2], t[3]>> IN
  IF t[1] = "S"
  THEN /\ Rng(t[4]) = {W.T.sexamples[k][4] : k \in TextRows(W, W.T.sexamples, e)}
       /\ Len(t[4]) = Cardinality(TextRows(W, W.T.sexamples, e))
       /\ Len(t[6]) = Cardinality(TextRows(W, W.T.counts, e))
       /\ Rng(t[6]) = {W.T.counts[k][4] : k \in TextRows(W, W.T.counts, e)}
  ELSE /\ Rng(t[4]) = {W.T.yexamples[k][4] : k \in TextRows(W, W.T.yexamples, e)}
       /\ Len(t[4]) = Cardinality(TextRows(W, W.T.yexamples, e))
       /\ t[5] = FirstDef(W, e)
\* Y rows: <<o, id, senses, words, <<ili>>, ...>>
SynsetNavOK(W, o, t) ==
  LET rows == SynsetSenseRows(W, Ent(t))
      ss == t[3][2] IN
  /\ t[3][1] = "ok" /\ InRankOrder(rows, 8, [k \in DOMAIN ss |-> Ent(ss[k])])
  \* synset.words() is the image of synset.senses() under sense.word(), in order
  /\ (\A k \in DOMAIN ss : HasSRow(o, Ent(ss[k]))) =>
       IF \A k \in DOMAIN ss : SRow(o, Ent(ss[k]))[3][1] = "ok"
       THEN /\ t[4][1] = "ok" /\ Len(t[4][2]) = Len(ss)
            /\ \A k \in DOMAIN ss : Ent(t[4][2][k]) = <<SRow(o, Ent(ss[k]))[3][2], SRow(o, Ent(ss[k]))[3][3]>>
       ELSE t[4][1] = "err"
  /\ t[5][1] = (IF HasIli(W, Ent(t)) THEN IliOf(W, Ent(t)) ELSE "~")
  \* synset.lemmas() is the image of synset.words(), in order, repetitions included
  /\ (t[4][1] = "ok" /\ \A k \in DOMAIN t[4][2] : t[4][2][k][1] \in W.I) =>
       /\ t[13][1] = "ok" /\ Len(t[13][2]) = Len(t[4][2])
       /\ \A k \in DOMAIN t[4][2] : t[13][2][k] = LemmaOf(W, Ent(t[4][2][k]))
\* inverse laws on the observations: a sense is among the senses of its word / synset
InverseOK(W, o) ==
  \A t \in Rng(o.S) :
     /\ (t[3][1] = "ok" /\ <<t[3][2], t[3][3]>> = DeclWord(W, Ent(t))) =>
          \A u \in Rng(o.W) : Ent(u) = DeclWord(W, Ent(t)) => Ent(t) \in Ents(u[3][2])
     /\ (t[4][1] = "ok" /\ <<t[4][2], t[4][3]>> = DeclSynset(W, Ent(t))) =>
          \A u \in Rng(o.Y) : Ent(u) = DeclSynset(W, Ent(t)) => Ent(t) \in Ents(u[3][2])
\* translate rows: t[k] = <<<<target, <<st, list>>>>...>>
TranslateOK(W, x, tr) ==
  \A p \in Rng(tr) :
     IF SelectError(Db(W.T, W.inst), p[1], "~") /\ HasIli(W, x) THEN p[2][1] = "err"
     ELSE p[2][1] = "ok" /\ Ents(p[2][2]) = Translate(W, x, p[1]) /\ NoDup(p[2][2])

\* TS rows: <<o, id, <<<<target, <<st, senses>>>>...>>>>: the senses of the translated synsets
SenseTranslateOK(W, o, t) ==
  LET s == Ent(t) IN
  \A p \in Rng(t[3]) :
     \* sense.translate() goes through sense.synset(): claimed when that is in scope
     DeclSynset(W, s)[1] \in ScopeOf(W, s) =>
       IF SelectError(Db(W.T, W.inst), p[1], "~") /\ HasIli(W, DeclSynset(W, s)) THEN p[2][1] = "err"
       ELSE p[2][1] = "ok" /\ Ents(p[2][2]) = TranslateSenses(W, DeclSynset(W, s), p[1])
\* TW rows: <<o, id, <<<<target, st, <<<<sense, <<words>>>>...>>>>...>>>>: word.translate() maps
\* each sense of the word to the words of its translated senses
WordTranslateOK(W, o, t) ==
  \A p \in Rng(t[3]) : p[2] = "ok" =>
     \A q \in Rng(p[3]) :
        LET s == Ent(q[1]) IN
          (HasSRow(o, s) /\ DeclSynset(W, s)[1] \in ScopeOf(W, s)) =>
             Ents(q[2]) = {DeclWord(W, z) : z \in TranslateSenses(W, DeclSynset(W, s), p[1])}
\* ... as a list: the words of sense.translate(), one per translated sense, in its order (a
\* word reached through two translated senses is listed twice)
WordTranslateImageOK(W, o, t) ==
  \A p \in Rng(t[3]) : p[2] = "ok" =>
     \A q \in Rng(p[3]) : \A u \in Rng(o.TS) : Ent(u) = Ent(q[1]) =>
        \A pp \in Rng(u[3]) : (pp[1] = p[1] /\ pp[2][1] = "ok") =>
           [k \in DOMAIN q[2] |-> Ent(q[2][k])]
             = [k \in DOMAIN pp[2][2] |-> DeclWord(W, Ent(pp[2][2][k]))]

(* ---- relations (C11) ------------------------------------------------------ *)
\* relation_map rows: <<name, source id, target id, lexicon, subtype, note, <<o, id>>>>
MapPairs(m) == {<<<<q[1], q[2], q[3], q[4], q[5]>>, Ent(q[7])>> : q \in Rng(m)}
NotesOK(rows, m) ==
  \A q \in Rng(m) : \E r \in rows : KeyOf(r) = <<q[1], q[2], q[3], q[4], q[5]>> /\ r[8] = q[6]
RelsAgree(pairs, rl) ==      \* relations(): name -> targets
  /\ {g[1] : g \in Rng(rl)} = {p[1][1] : p \in pairs} /\ NoDup([k \in DOMAIN rl |-> rl[k][1]])
  /\ \A g \in Rng(rl) : Ents(g[2]) = {p[2] : p \in {p \in pairs : p[1][1] = g[1]}} /\ NoDup(g[2])
SimplePath(x, p) == NoDup(p) /\ x \notin Rng(p)
SynsetRelOK(W, t) ==
  LET x == Ent(t)
      pairs == SynPairs(W, x, x[1], {}) IN
  \* relation_map() is a mapping: one entry per relation key (when several
  \* synsets of the selection carry the ILI of a borrowed target, one of them)
  /\ t[7][1] = "ok" /\ MapPairs(t[7][2]) \subseteq pairs
  /\ {p[1] : p \in MapPairs(t[7][2])} = {p[1] : p \in pairs}
  /\ Len(t[7][2]) = Cardinality({p[1] : p \in pairs})
  /\ t[6][1] = "ok" /\ RelsAgree(pairs, t[6][2])
  /\ \A a \in Rng(t[8]) :
       /\ a[2][1] = "ok" /\ Ents(a[2][2]) = Related(W, x, x[1], Types(a[1])) /\ NoDup(a[2][2])
SynsetClosureOK(W, t) ==
  LET x == Ent(t) IN
  \A a \in Rng(t[8]) :
       /\ a[3][1] = "ok" /\ Ents(a[3][2]) = Closure(W, x, Types(a[1])) /\ NoDup(a[3][2])
       /\ a[4][1] = "ok"
       /\ {[k \in DOMAIN p |-> Ent(p[k])] : p \in Rng(a[4][2])} = RelPaths(W, x, Types(a[1]))
       /\ \A p \in Rng(a[4][2]) : SimplePath(x, [k \in DOMAIN p |-> Ent(p[k])])
       \* relation_paths(end=e): the simple paths from x that stop on first reaching e
       /\ \A q \in Rng(a[5]) :
            /\ q[2][1] = "ok"
            /\ {[k \in DOMAIN p |-> Ent(p[k])] : p \in Rng(q[2][2])} = EndPaths(W, x, Types(a[1]), Ent(q[1]))
            /\ Len(q[2][2]) = Cardinality(Rng(q[2][2]))
NamedRelOK(W, t) ==
  LET x == Ent(t)
      R(ts) == Related(W, x, x[1], ts) IN
  /\ t[9][1][1] = "ok" /\ Ents(t[9][1][2]) = R({"hypernym", "instance_hypernym"})
  /\ t[9][2][1] = "ok" /\ Ents(t[9][2][2]) = R({"hyponym", "instance_hyponym"})
  /\ t[9][3][1] = "ok" /\ Ents(t[9][3][2]) = R({"holonym", "holo_location", "holo_member",
                                               "holo_part", "holo_portion", "holo_substance"})
  /\ t[9][4][1] = "ok" /\ Ents(t[9][4][2]) = R({"meronym", "mero_location", "mero_member",
                                               "mero_part", "mero_portion", "mero_substance"})
\* S rows: <<o, id, word, synset, relations, relation_map, <<<<args, related, related synsets, closure>>...>>>>
SenseRelOK(W, t) ==
  LET s == Ent(t)
      rows == OwnSenseRows(W, s, {})
      pairs == {<<KeyOf(r), TargetOf(r)>> : r \in rows} IN
  /\ t[6][1] = "ok" /\ MapPairs(t[6][2]) = pairs /\ NotesOK(rows, t[6][2])
  /\ Len(t[6][2]) = Cardinality({p[1] : p \in pairs})
  /\ t[5][1] = "ok" /\ RelsAgree(pairs, t[5][2])
  /\ \A a \in Rng(t[7]) :
       /\ a[2][1] = "ok" /\ Ents(a[2][2]) = SenseRelated(W, s, Types(a[1])) /\ NoDup(a[2][2])
       /\ a[4][1] = "ok" /\ Ents(a[4][2]) = SenseClosure(W, s, Types(a[1])) /\ NoDup(a[4][2])
SenseSynRelOK(W, t, a) ==
  a[3][1] = "ok" /\ NoDup(a[3][2])
  /\ Ents(a[3][2]) = {TargetOf(r) : r \in OwnSenseSynRows(W, Ent(t), Types(a[1]))}
\* known deviation (fixed): without arguments get_related_synsets() returned nothing
DevRelatedSynsetsNoArgs(W, t, a) ==
  /\ ~SenseSynRelOK(W, t, a) /\ a[1] = <<>> /\ a[3] = <<"ok", <<>>>>
NotesSynOK(W, t) == NotesOK(OwnSynRows(W, Ent(t), {}), t[7][2])

(* ---- expand (C12) --------------------------------------------------------- *)
\* own relations come first, then the borrowed ones
OwnFirst(W, t) ==
  LET own == OwnPairs(W, Ent(t), {})
      m == t[7][2]
      isown(q) == <<<<q[1], q[2], q[3], q[4], q[5]>>, Ent(q[7])>> \in own IN
    \A j, k \in DOMAIN m : (j < k /\ isown(m[k])) => isown(m[j])
\* placeholder rows: <<<<"*", ili>>, relation_map, hypernyms>>
PlaceholderOK(W, t) ==
  \A ph \in Rng(t[11]) :
     LET y == Ent(ph[1])
         pairs == SynPairs(W, y, t[1], {}) IN
       /\ ph[2][1] = "ok" /\ MapPairs(ph[2][2]) \subseteq pairs
       /\ {p[1] : p \in MapPairs(ph[2][2])} = {p[1] : p \in pairs}
       /\ ph[3][1] = "ok" /\ Ents(ph[3][2]) = Related(W, y, t[1], {"hypernym", "instance_hypernym"})
\* (checked for wordnets restricted to one lexicon: inferred synsets reached from
\* different lexicons carry different home lexicons, hash differently although they
\* compare equal, and the pinned traversal may then pass the same ILI twice - the
\* property says nothing about paths through placeholders)
HypPathsOK(W, t) ==
  (W.default \/ Cardinality(W.S) # 1) \/
  /\ t[12][1] = "ok"
  /\ {[k \in DOMAIN p |-> Ent(p[k])] : p \in Rng(t[12][2])}
       = RelPaths(W, Ent(t), {"hypernym", "instance_hypernym"})

(* ---- scope (C04) ---------------------------------------------------------- *)
InSel(W, x, e) == e[1] = "*" \/ e[1] \in (IF W.default THEN Family(W.T, W.I, x[1]) ELSE W.S)
AllIn(W, x, lst) == \A e \in Rng(lst) : InSel(W, x, Ent(e))
\* several hops (closure, relation paths): every hop stays in the family of the
\* entity it starts from, so the whole traversal stays among the lexicons connected
\* to the start through "extends"
InSelHops(W, x, e) == e[1] = "*" \/ e[1] \in (IF W.default THEN Component(W.T, W.I, x[1]) ELSE W.S)
AllInHops(W, x, lst) == \A e \in Rng(lst) : InSelHops(W, x, Ent(e))
ScopeOK(W, o) ==
  /\ \A e \in Rng(o.words) \cup Rng(o.senses) \cup Rng(o.synsets) : e[1] \in W.S
  \* wn.taxonomy.roots / leaves of the wordnet, per part of speech (TX rows)
  /\ \A t \in Rng(o.TX) : \A e \in Rng(t[2][2]) \cup Rng(t[3][2]) : e[1] \in AllIds(W)
  \* searches by form, exact or through the normalised form (FQ rows)
  /\ \A t \in Rng(o.FQ) : \A e \in Rng(t[2][2]) \cup Rng(t[3][2]) \cup Rng(t[4][2]) : e[1] \in AllIds(W)
  /\ \A t \in Rng(o.W) : AllIn(W, Ent(t), t[3][2]) /\ AllIn(W, Ent(t), t[4][2]) /\ AllIn(W, Ent(t), t[5][2])
  /\ \A t \in Rng(o.S) :
       /\ t[3][1] = "ok" => InSel(W, Ent(t), <<t[3][2], t[3][3]>>)
       /\ t[4][1] = "ok" => InSel(W, Ent(t), <<t[4][2], t[4][3]>>)
       /\ Len(t) >= 7 =>
            /\ \A g \in Rng(t[5][2]) : AllIn(W, Ent(t), g[2])
            /\ \A q \in Rng(t[6][2]) : InSel(W, Ent(t), Ent(q[7])) /\ InSel(W, Ent(t), <<q[4], "-">>)
            /\ \A a \in Rng(t[7]) : AllIn(W, Ent(t), a[2][2]) /\ AllIn(W, Ent(t), a[3][2]) /\ AllInHops(W, Ent(t), a[4][2])
  /\ \A t \in Rng(o.Y) :
       /\ AllIn(W, Ent(t), t[3][2]) /\ AllIn(W, Ent(t), t[4][2])
       /\ \A g \in Rng(t[6][2]) : AllIn(W, Ent(t), g[2])
       /\ \A q \in Rng(t[7][2]) : InSel(W, Ent(t), Ent(q[7]))
       \* the lexicon that defines a reported relation is in the selection or,
       \* for borrowed relations, an expand lexicon
       /\ \A q \in Rng(t[7][2]) : InSel(W, Ent(t), <<q[4], "-">>) \/ q[4] \in W.E
       /\ \A a \in Rng(t[8]) : AllIn(W, Ent(t), a[2][2]) /\ AllInHops(W, Ent(t), a[3][2])
                               /\ \A p \in Rng(a[4][2]) : AllInHops(W, Ent(t), p)

(* ---- putting it together --------------------------------------------------- *)
G(r, g) == g \in Rng(r.groups)
Rows(S, P(_), name, o) == LET bad == {t \in S : ~P(t)} IN
  IF bad = {} THEN {} ELSE {<<name, o.cfg, CHOOSE t \in bad : TRUE>>}
Cl(ok, name, o) == IF ok THEN {} ELSE {<<name, o.cfg, "-">>}
ObsFails(r, T, inst, o) ==
  LET W == Wn(T, inst, o.cfg)
      N1(t) == SenseNavDev(W, t)   N2(t) == WordNavOK(W, o, t)   N3(t) == SynsetNavOK(W, o, t)
      N4(t) == TranslateOK(W, Ent(t), t[10])
      N5(t) == SenseTranslateOK(W, o, t)    N6(t) == WordTranslateOK(W, o, t) /\ WordTranslateImageOK(W, o, t)
      A1(t) == TextsOK(W, t)
      F1(t) == FormsOK(W, t) \/ DevFormsOfUnselectedExtension(W, t)
      F2(t) == TagsOK(W, t) \/ DevTagsOfUnselectedExtension(W, t)
      R1(t) == SynsetRelOK(W, t)   R2(t) == SynsetClosureOK(W, t)  R3(t) == NamedRelOK(W, t)
      R4(t) == SenseRelOK(W, t)    R6(t) == NotesSynOK(W, t)
      R5(t) == \A a \in Rng(t[7]) : SenseSynRelOK(W, t, a) \/ DevRelatedSynsetsNoArgs(W, t, a)
      L1(t) == LookupOK(W, t)     L2(t) == RouteOK(t)
      X1(t) == OwnFirst(W, t)      X2(t) == PlaceholderOK(W, t)    X3(t) == HypPathsOK(W, t)
  IN
  (IF G(r, "ctor") THEN Cl(CtorOK(T, inst, o), "Constructor", o) ELSE {})
  \cup (IF o.st # "ok" \/ ConstructorFails(T, inst, o.cfg) THEN {} ELSE
     (IF G(r, "ctor") THEN Cl(ListsOK(W, o), "EntityLists", o) \cup Cl(DescribeOK(W, o), "Describe", o)
                           \cup Cl(ModuleListsOK(W, o), "ModuleLevelLists", o) ELSE {})
     \cup (IF G(r, "ctor") \/ G(r, "nav") THEN Rows(Rng(o.LK), L1, "LookupById", o) ELSE {})
     \cup Rows(Rng(o.RT), L2, "RouteIndependent", o)
     \cup (IF G(r, "nav") THEN Rows(Rng(o.S), N1, "SenseNavigation", o)
                              \cup Rows(Rng(o.W), N2, "WordNavigation", o)
                              \cup Rows(Rng(o.Y), N3, "SynsetNavigation", o)
                              \cup Rows(Rng(o.Y), N4, "Translate", o)
                              \cup Rows(Rng(o.TS), N5, "SenseTranslate", o)
                              \cup Rows(Rng(o.TW), N6, "WordTranslate", o)
                              \cup Cl(InverseOK(W, o), "InverseNavigation", o)
                              \cup Cl(\A q \in Rng(o.ident) : \A b \in Rng(q) : b, "EqualAndHashAlike", o)
                              ELSE {})
     \cup (IF G(r, "rel") THEN Rows(Rng(o.Y), R1, "SynsetRelations", o)
                              \cup Rows(Rng(o.Y), R2, "ClosureAndPaths", o)
                              \cup Rows(Rng(o.Y), R3, "NamedRelations", o)
                              \cup Rows(Rng(o.Y), R6, "RelationMetadata", o)
                              \cup Rows(Rng(o.S), R4, "SenseRelations", o)
                              \cup Rows(Rng(o.S), R5, "SenseSynsetRelations", o) ELSE {})
     \cup (IF G(r, "exp") THEN Rows(Rng(o.Y), R1, "ExpandedRelations", o)
                              \cup Rows(Rng(o.Y), X1, "OwnRelationsFirst", o)
                              \cup Rows(Rng(o.Y), X2, "Placeholders", o)
                              \cup Rows(Rng(o.Y), X3, "HypernymPathsThroughExpand", o) ELSE {})
     \cup (IF G(r, "scope") THEN Cl(ScopeOK(W, o), "StaysInSelection", o)
                                \cup Rows(Rng(o.A), A1, "TextsInSelection", o)
                                \cup Rows(Rng(o.W), F1, "FormsInSelection", o)
                                \cup Rows(Rng(o.W), F2, "TagsInSelection", o) ELSE {}))
ObsDevs(r, T, inst, o) ==
  IF o.st # "ok" \/ ConstructorFails(T, inst, o.cfg) THEN {} ELSE
  LET W == Wn(T, inst, o.cfg) IN
  (IF G(r, "nav") /\ \E t \in Rng(o.S) : SenseNavDev(W, t) /\ ~SenseNavOK(W, t)
   THEN {"DevSenseNavigationOtherVersion"} ELSE {})
  \cup (IF G(r, "rel") /\ \E t \in Rng(o.S) : \E a \in Rng(t[7]) : DevRelatedSynsetsNoArgs(W, t, a)
        THEN {"DevRelatedSynsetsNoArgs"} ELSE {})
  \cup (IF G(r, "scope") /\ \E t \in Rng(o.W) : DevFormsOfUnselectedExtension(W, t)
        THEN {"DevFormsOfUnselectedExtension"} ELSE {})
  \cup (IF G(r, "scope") /\ \E t \in Rng(o.W) : DevTagsOfUnselectedExtension(W, t)
        THEN {"DevTagsOfUnselectedExtension"} ELSE {})
Fails(r) ==
  IF "timeout" \in DOMAIN r THEN {<<"Terminates", "-", "-">>} ELSE
  UNION {ObsFails(r, r.tables, r.inst, o) : o \in Rng(r.obs)}
Devs(r) ==
  IF "timeout" \in DOMAIN r THEN {} ELSE
  UNION {ObsDevs(r, r.tables, r.inst, o) : o \in Rng(r.obs)}
Judge == LET r == Recs[i]  f == Fails(r)  d == Devs(r) IN
  /\ f = {} \/ PrintT(ToJson([k |-> "FAIL", id |-> r.id, c |-> f]))
  /\ d = {} \/ PrintT(ToJson([k |-> "DEV", id |-> r.id, d |-> d]))
=============================================================================
