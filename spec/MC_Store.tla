------------------------------- MODULE MC_Store -------------------------------
(* Bounded instance of the store: every history of add / remove / add-ILI    *)
(* over the universe, with the transactions of add and remove unfolded into  *)
(* their steps and a fault possible between any two steps.                  *)
(*   db    the committed database (what another connection / a crash sees)  *)
(*   work  the state seen by the connection inside its open transaction     *)
(*   txn   the open transaction: [kind, todo, target]                       *)
EXTENDS WnStore
CONSTANTS Resources, RemoveArgs, IliFiles
VARIABLES db, work, txn
vars == <<db, work, txn>>
None == [kind |-> "none", todo |-> <<>>, target |-> "~"]

Init == db = EmptyState /\ work = EmptyState /\ txn = None

(* add(r): _precheck, then one transaction for all lexicons of the resource *)
AddBegin(r) ==
  /\ txn = None /\ AddOutcome(db, r) # "skip"
  /\ txn' = [kind |-> "add", todo |-> Todo(db, r), target |-> r]
  /\ UNCHANGED <<db, work>>
AddStep ==
  /\ txn.kind = "add" /\ txn.todo # <<>> /\ CanInsert(work, Head(txn.todo))
  /\ work' = InsertLex(work, Head(txn.todo))
  /\ txn' = [txn EXCEPT !.todo = Tail(@)]
  /\ UNCHANGED db
\* a constraint violation (duplicate lexicon) aborts the whole call
AddReject ==
  /\ txn.kind = "add" /\ txn.todo # <<>> /\ ~CanInsert(work, Head(txn.todo))
  /\ work' = db /\ txn' = None /\ UNCHANGED db
AddCommit ==
  /\ txn.kind = "add" /\ txn.todo = <<>>
  /\ db' = work /\ txn' = None /\ UNCHANGED work

(* remove(arg): for each matched lexicon one transaction that deletes the    *)
(* transitive extensions, deepest first, and then the lexicon               *)
RemoveBegin(a) ==
  /\ txn = None /\ RemoveOutcome(db, a) = "ok" /\ Matched(db, a) # <<>>
  /\ txn' = [kind |-> "remove", todo |-> Matched(db, a), target |-> "~"]
  /\ UNCHANGED <<db, work>>
RemoveNext ==      \* open the transaction of the next matched lexicon
  /\ txn.kind = "remove" /\ txn.target = "~" /\ txn.todo # <<>>
  /\ IF Head(txn.todo) \in Installed(work)
     THEN txn' = [txn EXCEPT !.target = Head(txn.todo), !.todo = Tail(@)]
     ELSE txn' = [txn EXCEPT !.todo = Tail(@)]   \* already gone as an extension
  /\ UNCHANGED <<db, work>>
Leaves(st, s) == {e \in Family(st, s) : Family(st, e) = {e}}
RemoveDelete ==    \* delete one lexicon that nothing installed extends any more
  /\ txn.kind = "remove" /\ txn.target # "~" /\ txn.target \in Installed(work)
  /\ \E e \in Leaves(work, txn.target) :
        /\ (e = txn.target => Family(work, txn.target) = {txn.target})
        /\ work' = RemoveLex(work, e)
  /\ UNCHANGED <<db, txn>>
RemoveCommit ==
  /\ txn.kind = "remove" /\ txn.target # "~" /\ txn.target \notin Installed(work)
  /\ db' = work /\ txn' = [txn EXCEPT !.target = "~"] /\ UNCHANGED work
RemoveEnd ==
  /\ txn.kind = "remove" /\ txn.target = "~" /\ txn.todo = <<>>
  /\ txn' = None /\ UNCHANGED <<db, work>>

AddIli(f) ==
  /\ txn = None
  /\ db' = AddIliResult(db, f) /\ work' = db' /\ UNCHANGED txn

\* an exception (caller's progress handler, denied SQL statement, ...) at any
\* point of an open transaction: roll back, the call ends
Fault ==
  /\ txn.kind \in {"add", "remove"}
  /\ work' = db /\ txn' = None /\ UNCHANGED db

Next == \/ \E r \in Resources : AddBegin(r)
        \/ AddStep \/ AddReject \/ AddCommit
        \/ \E a \in RemoveArgs : RemoveBegin(a)
        \/ RemoveNext \/ RemoveDelete \/ RemoveCommit \/ RemoveEnd
        \/ \E f \in IliFiles : AddIli(f)
        \/ Fault
Spec == Init /\ [][Next]_vars

(* ---- properties --------------------------------------------------------- *)
\* C05: the committed database is always canonical: links in step with what is
\* installed, no residue, extensions have their base, lookups cover the content
CommittedCanonical == Canonical(db)
\* C05/C06: the committed database changes only by complete operations
WholeOperationsOnly ==
  [][db' # db =>
       \/ \E r \in Resources : AddOutcome(db, r) = "ok" /\ db' = AddResult(db, r)
       \/ \E s \in Installed(db) : db' = RemoveLex(db, s)
       \/ \E f \in IliFiles : db' = AddIliResult(db, f)]_vars
\* C06: a fault leaves the committed database untouched and the connection
\* back on it
AbortRestores == [][Fault \/ AddReject => (db' = db /\ work' = db)]_vars
QuiescentAgree == txn = None => work = db
\* C05: a removed lexicon can be added again and comes back identically
\* (content is a function of inst; inst regains the lexicon)
Readdable ==
  \A r \in Resources : (txn = None /\ \A s \in Rng(Res(r).lex) : s \notin Installed(db) /\ ~IsExt(s))
       => AddOutcome(db, r) \in {"ok", "fail"}
\* C19: an ILI file changes nothing but ilis and the status lookup
IliOnly == [][(\E f \in IliFiles : AddIli(f)) =>
                 (db'.inst = db.inst /\ db'.links = db.links /\ db'.extras = db.extras
                  /\ db'.look.rel = db.look.rel /\ db'.look.lexfile = db.look.lexfile)]_vars
IliIdempotent == \A f \in IliFiles : AddIliResult(AddIliResult(db, f), f) = AddIliResult(db, f)
\* C19: status/definition of a listed ILI do not depend on whether the index is
\* loaded before or after a lexicon using it
IliCommutes ==
  \A f \in IliFiles, r \in Resources :
     (txn = None /\ AddOutcome(db, r) = "ok") =>
        LET ab == AddIliResult(AddResult(db, r), f)
            ba == AddResult(AddIliResult(db, f), r)
            listed == {IliFile(f).rows[k][1] : k \in DOMAIN IliFile(f).rows} IN
          {t \in ab.ilis : t[1] \in listed} = {t \in ba.ilis : t[1] \in listed}
\* C07: adding what is installed changes nothing ...
Idempotent == \A r \in Resources :
  (txn = None /\ \A s \in Rng(Res(r).lex) : s \in Installed(db)) =>
      AddOutcome(db, r) = "skip" /\ AddResult(db, r) = db
\* ... and an extension whose base is not installed at the start of the call is
\* skipped as a whole (nothing of it is in the result)
SkipWhole == \A r \in Resources : txn = None =>
  \A s \in Rng(Res(r).lex) :
     (IsExt(s) /\ Base(s) \notin Installed(db)) => s \notin Installed(AddResult(db, r))
=============================================================================
