------------------------------ MODULE MC_Session ------------------------------
EXTENDS WnSession, TLC, Json
CONSTANT Depth
Dirs == {"A", "B", "F"}
Lexs == {"p:1", "q:1"}
VARIABLES cur, disk, open, hist
vars == <<cur, disk, open, hist>>
Init == /\ cur = "A" /\ open = {} /\ hist = <<>>
        /\ disk = [d \in Dirs |-> IF d = "F" THEN Foreign ELSE Absent]
Log(op, r) == /\ Len(hist) < Depth
              /\ disk' = r.disk /\ open' = r.open
              /\ hist' = Append(hist, [op |-> op, res |-> r.res,
                                       disk |-> r.disk])
SetDir(d) == /\ Len(hist) < Depth /\ cur' = d /\ UNCHANGED <<disk, open>>
             /\ hist' = Append(hist, [op |-> <<"setdir", d>>, res |-> Ok({}),
                                      disk |-> disk])
Next == \/ \E d \in Dirs : SetDir(d)
        \/ (Log(<<"list">>, List(disk, open, cur)) /\ UNCHANGED cur)
        \/ (Log(<<"query">>, Query(disk, open, cur)) /\ UNCHANGED cur)
        \/ \E l \in Lexs : (Log(<<"add", l>>, Add(disk, open, cur, l)) /\ UNCHANGED cur)
        \/ \E l \in Lexs : (Log(<<"remove", l>>, Remove(disk, open, cur, l)) /\ UNCHANGED cur)
Spec == Init /\ [][Next]_vars
\* a call touches the current directory only
OnlyCurrent == [][\A d \in Dirs : d # cur => disk'[d] = disk[d]]_vars
\* a database written by another schema is never opened and never changed
ForeignUntouched == disk["F"] = Foreign /\ "F" \notin open
\* once created a database stays, with exactly what was put there
NeverLost == [][\A d \in Dirs : disk[d].kind = "db" => disk'[d].kind = "db"]_vars
OpenOnlyDbs == \A d \in open : disk[d].kind = "db"
Emit == Len(hist) < Depth \/ PrintT(ToJson(hist))
View == <<cur, disk, open, Len(hist)>>
=============================================================================
