--------------------------- MODULE Judge_Download ---------------------------
(* Trace validation for wn.download(): every recorded step (index, servers, *)
(* cache and database before; call; outcome, requests made, cache and       *)
(* database after) must be the step WnDownload.tla defines.                 *)
EXTENDS WnDownload, Json, IOUtils, TLC
Recs == ndJsonDeserialize(IOEnv.TRACE_FILE)
VARIABLE i
Init == i \in 1..Len(Recs)
Next == UNCHANGED i
Rng(s) == {s[k] : k \in DOMAIN s}
Good == {"g1", "g2"}
SameRes(a, b) == a[1] = b[1] /\ a[2] = b[2]
Cl(ok, name) == IF ok THEN {} ELSE {name}
CallFails(r) ==
  LET m == Download(r.idx, r.pre.cache, r.server, Rng(r.pre.db), Good, r.op[2], r.op[3]) IN
    Cl(SameRes(r.res, m.res), "Outcome")
    \cup Cl(r.reqs = m.reqs, "RequestsMade")
    \cup Cl(r.post.cache = m.cache, "CacheAfter")
    \cup Cl(Rng(r.post.db) = m.db, "DatabaseAfter")
OtherFails(r) ==
  LET op == r.op IN
    Cl(r.post.db = r.pre.db /\ r.reqs = <<>>, "EnvironmentStepIsSilent")
    \cup Cl(r.post.cache = (IF op[1] = "evict" THEN [r.pre.cache EXCEPT ![op[2]] = None] ELSE r.pre.cache),
            "CacheAfter")
Fails(r) ==
  IF "timeout" \in DOMAIN r THEN {"Terminates"} ELSE
    (IF r.op[1] = "call" THEN CallFails(r) ELSE OtherFails(r))
    \cup Cl(r.stray = <<>>, "NoStrayFiles")
    \cup (IF "exp" \in DOMAIN r
          THEN Cl(SameRes(r.res, r.exp.res) /\ r.reqs = r.exp.reqs /\ r.post.cache = r.exp.cache
                  /\ Rng(r.post.db) = Rng(r.exp.db), "SpecBehaviourReplayed") ELSE {})
Judge == LET r == Recs[i]  f == Fails(r) IN
  f = {} \/ PrintT(ToJson([k |-> "FAIL", id |-> r.id, c |-> f]))
=============================================================================
