------------------------------ MODULE WnSelect ------------------------------
(* Lexicon specifiers and language codes (docs/guides/lexicons.rst):        *)
(*   *  all lexicons | id:version | id:* | *:version | glob on "id:version" *)
(*   id (bare)  the most recently added lexicon with that id                *)
(*   "s1 s2 .." the union                                                   *)
(* A database is seen here as the sequence of installed lexicons in order   *)
(* of addition, each a record with at least id, version, lang.              *)
EXTENDS Naturals, Sequences, FiniteSets

Ch(s, k) == SubSeq(s, k, k)
Tl(s) == SubSeq(s, 2, Len(s))
HasChar(s, c) == \E k \in 1..Len(s) : Ch(s, k) = c

\* glob matching: "*" (any run of characters) is the documented form; the implementation
\* hands the pattern to SQLite's GLOB, so "?" (any one character) and "[abc]" / "[^abc]"
\* (one character of / not of the set; ranges are not modelled) work as well
HasClose(p) == \E k \in 3..Len(p) : Ch(p, k) = "]"
CloseAt(p) == CHOOSE k \in 3..Len(p) : Ch(p, k) = "]" /\ \A j \in 3..(k - 1) : Ch(p, j) # "]"
RECURSIVE Glob(_, _)
Glob(p, s) ==
  IF Len(p) = 0 THEN Len(s) = 0
  ELSE IF Ch(p, 1) = "*" THEN Glob(Tl(p), s) \/ (Len(s) > 0 /\ Glob(p, Tl(s)))
  ELSE IF Ch(p, 1) = "?" THEN Len(s) > 0 /\ Glob(Tl(p), Tl(s))
  ELSE IF Ch(p, 1) = "[" /\ HasClose(p)
       THEN LET k == CloseAt(p)
                cls == SubSeq(p, 2, k - 1)
                neg == Ch(cls, 1) = "^"
                body == IF neg THEN Tl(cls) ELSE cls IN
              /\ Len(s) > 0 /\ (HasChar(body, Ch(s, 1)) # neg)
              /\ Glob(SubSeq(p, k + 1, Len(p)), Tl(s))
  ELSE Len(s) > 0 /\ Ch(s, 1) = Ch(p, 1) /\ Glob(Tl(p), Tl(s))

\* an independent definition used to cross-check Glob on the bounded model:
\* p matches s iff the literal pieces of p between stars occur in s in order,
\* anchored at both ends
RECURSIVE Pieces(_, _)
Pieces(p, acc) ==   \* split p on "*"
  IF Len(p) = 0 THEN <<acc>>
  ELSE IF Ch(p, 1) = "*" THEN <<acc>> \o Pieces(Tl(p), "")
  ELSE Pieces(Tl(p), acc \o Ch(p, 1))
StartsWith(s, q) == Len(q) <= Len(s) /\ SubSeq(s, 1, Len(q)) = q
EndsWith(s, q) == Len(q) <= Len(s) /\ SubSeq(s, Len(s) - Len(q) + 1, Len(s)) = q
RECURSIVE InOrder(_, _)
InOrder(ps, s) ==   \* middle pieces occur left to right (leftmost match is optimal)
  IF Len(ps) = 0 THEN TRUE
  ELSE LET q == Head(ps)
           ks == {k \in 1..(Len(s) - Len(q) + 1) : SubSeq(s, k, k + Len(q) - 1) = q} IN
         IF Len(q) = 0 THEN InOrder(Tail(ps), s)
         ELSE ks # {} /\ LET k == CHOOSE k \in ks : \A j \in ks : k <= j IN
                           InOrder(Tail(ps), SubSeq(s, k + Len(q), Len(s)))
Glob2(p, s) ==
  LET ps == Pieces(p, "") IN
    IF Len(ps) = 1 THEN p = s
    ELSE LET first == ps[1]  last == ps[Len(ps)] IN
           /\ StartsWith(s, first)
           /\ Len(first) + Len(last) <= Len(s)
           /\ EndsWith(s, last)
           /\ InOrder(SubSeq(ps, 2, Len(ps) - 1),
                      SubSeq(s, Len(first) + 1, Len(s) - Len(last)))

\* split a specifier argument on blanks
RECURSIVE Split(_, _)
Split(s, acc) ==
  IF Len(s) = 0 THEN (IF Len(acc) = 0 THEN <<>> ELSE <<acc>>)
  ELSE IF Ch(s, 1) = " " THEN (IF Len(acc) = 0 THEN <<>> ELSE <<acc>>) \o Split(Tl(s), "")
  ELSE Split(Tl(s), acc \o Ch(s, 1))
Specifiers(arg) == Split(arg, "")

SpecOf(l) == l.id \o ":" \o l.version
LangOK(l, lang) == lang = "~" \/ l.lang = lang
\* indices (positions in the installed sequence) selected by one specifier
\* a specifier without a star selects a single lexicon, the most recently added one among
\* those it matches: documented for the bare id; "id:version" matches one lexicon anyway;
\* for the undocumented "?" / "[...]" patterns this is what the implementation does
SelOne(db, sp, lang) ==
  LET bare == ~HasChar(sp, "*")
      pat == IF HasChar(sp, ":") THEN sp ELSE sp \o ":*"
      hits == {k \in DOMAIN db : Glob(pat, SpecOf(db[k])) /\ LangOK(db[k], lang)} IN
    IF bare /\ hits # {}
    THEN {CHOOSE k \in hits : \A j \in hits : k >= j}    \* most recently added
    ELSE hits
\* the selected positions
Select(db, arg, lang) ==
  UNION {SelOne(db, sp, lang) : sp \in {Specifiers(arg)[k] : k \in DOMAIN Specifiers(arg)}}
\* Wordnet(lexicon=arg, lang=lang) raises wn.Error iff nothing matched and a
\* specifier other than "*" or a language was given
SelectError(db, arg, lang) ==
  Select(db, arg, lang) = {} /\ (arg # "*" \/ lang # "~")

(* What the pinned code did instead (kept as named deviations):              *)
\* a bare id selected the FIRST added version ...
DevSelOneFirstAdded(db, sp, lang, wholearg) ==
  LET star == HasChar(wholearg, "*")   \* ... and LIMIT was decided on the whole argument
      pat == IF HasChar(sp, ":") THEN sp ELSE sp \o ":*"
      hits == {k \in DOMAIN db : Glob(pat, SpecOf(db[k])) /\ LangOK(db[k], lang)} IN
    IF ~star /\ hits # {} THEN {CHOOSE k \in hits : \A j \in hits : k <= j} ELSE hits
DevSelect(db, arg, lang) ==
  UNION {DevSelOneFirstAdded(db, sp, lang, arg) :
           sp \in {Specifiers(arg)[k] : k \in DOMAIN Specifiers(arg)}}
=============================================================================
