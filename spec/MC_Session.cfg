CONSTANT Depth = 7
SPECIFICATION Spec
VIEW View
CHECK_DEADLOCK FALSE
INVARIANT ForeignUntouched
INVARIANT OpenOnlyDbs
PROPERTY OnlyCurrent
PROPERTY NeverLost
