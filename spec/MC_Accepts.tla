------------------------------ MODULE MC_Accepts ------------------------------
(* The acceptance rules of WnLmf over the whole mutation alphabet: total,       *)
(* header faults always rejected, neutral mutations always accepted, an element *)
(* of version 1.0 accepted by every version, required attributes never optional.*)
EXTENDS WnLmf, TLC
VARIABLE m
Kinds == {"none", "requote", "reorder", "doctype_quotes", "drop_attr", "rename", "foreign_elem",
          "dup_child", "unbalance", "no_xmldecl", "no_doctype", "bad_version", "blank_first_line",
          "comment", "redump", "charref", "bom", "leading_space", "header_ws"}
Attrs == {"id", "version", "label", "language", "email", "license", "url", "citation", "logo",
          "writtenForm", "partOfSpeech", "script", "category", "synset", "target", "relType",
          "ili", "lexicalized", "subcategorizationFrame", "note", "~"}
Init == m \in [kind : Kinds, elem : Elems11 \cup {"Bogus", "~"}, attr : Attrs]
Next == UNCHANGED m
Total == \A v \in Versions : Accepts(v, m) \in BOOLEAN
HeaderFaultsRejected == ~HeaderOK(m) => \A v \in Versions : ~Accepts(v, m)
NeutralAccepted == Neutral(m) => \A v \in Versions : Accepts(v, m)
OldElementsEverywhere == (m.kind = "foreign_elem" /\ m.elem \in Elems10) => \A v \in Versions : Accepts(v, m)
NewElementsNotIn10 == (m.kind = "foreign_elem" /\ m.elem \in Elems11 \ Elems10) =>
                         (~Accepts("1.0", m) /\ Accepts("1.1", m) /\ Accepts("1.3", m))
MonotoneInVersion == Accepts("1.0", m) => Accepts("1.3", m)
IdsAreRequired == (m.kind = "drop_attr" /\ m.attr = "id" /\
                   m.elem \in {"Lexicon", "LexicalEntry", "Sense", "Synset", "ExternalSense"}) =>
                      \A v \in Versions : ~Accepts(v, m)
=============================================================================
