------------------------------- MODULE WnStore -------------------------------
(* State machine of the lexicon database (wn.add / wn.remove / ILI files).  *)
(*                                                                          *)
(* The universe U of related lexicons, resources and ILI files is read from *)
(* universe.json, which harness/universe.py derives from the very documents *)
(* it materialises (one source of truth).                                   *)
(*                                                                          *)
(* Abstract state (a record `st'):                                          *)
(*   inst    sequence of installed lexicon specifiers, in order of addition *)
(*   ilis    set of <<id, status, definition>> (the ilis table)             *)
(*   look    [rel, lexfile, status]: the lookup tables                      *)
(*   links   set of <<dependent, provider>>: dependency rows whose provider *)
(*           is resolved (provider_rowid not null)                          *)
(*   extras  set of <<base, extension, n>>: n tag/pronunciation rows that   *)
(*           `extension' attached to forms owned by `base'                  *)
(* Transactions are explicit: one per add() call (all lexicons of the       *)
(* resource), one per lexicon matched by remove() (its extensions first).   *)
EXTENDS WnSelect, Json, TLC

U == JsonDeserialize("universe.json")
Rng(s) == {s[k] : k \in DOMAIN s}
LexRecs == Rng(U.lex)
Lex(s) == CHOOSE l \in LexRecs : l.spec = s
AllSpecs == {l.spec : l \in LexRecs}
ResRecs == Rng(U.res)
Res(n) == CHOOSE r \in ResRecs : r.name = n
IliRecs == Rng(U.ili)
IliFile(n) == CHOOSE f \in IliRecs : f.name = n

Installed(st) == Rng(st.inst)
Base(s) == Lex(s).base
IsExt(s) == Base(s) # "~"
Requires(s) == Rng(Lex(s).requires)
\* transitive extensions of s among the installed lexicons
RECURSIVE ExtsOf(_, _)
ExtsOf(st, S) ==
  LET more == {e \in Installed(st) : Base(e) \in S} \ S IN
    IF more = {} THEN S ELSE ExtsOf(st, S \cup more)
Family(st, s) == ExtsOf(st, {s})           \* s and its transitive extensions

EmptyState == [inst |-> <<>>, ilis |-> {},
               look |-> [rel |-> {}, lexfile |-> {}, status |-> {"presupposed", "proposed"}],
               links |-> {}, extras |-> {}]

IliIds(st) == {t[1] : t \in st.ilis}

(* ---- inserting one lexicon (inside the add transaction) --------------- *)
FirstDef(l, i) ==
  LET ks == {k \in DOMAIN l.ilis : l.ilis[k][2] = i}
      k == CHOOSE k \in ks : \A j \in ks : k <= j IN l.ilis[k][3]

CanInsert(st, s) == s \notin Installed(st) /\ (IsExt(s) => Base(s) \in Installed(st))
InsertLex(st, s) ==
  LET l == Lex(s)
      \* presupposed ILIs: first occurrence wins (INSERT OR IGNORE)
      newili == {t \in Rng(l.ilis) : t[2] \notin IliIds(st)}
      ids == {t[2] : t \in newili}
  IN [inst |-> Append(st.inst, s),
      ilis |-> st.ilis \cup {<<i, "presupposed", FirstDef(l, i)>> : i \in ids},
      look |-> [rel |-> st.look.rel \cup Rng(l.reltypes),
                lexfile |-> st.look.lexfile \cup Rng(l.lexfiles),
                status |-> st.look.status],
      links |-> st.links
                \cup {<<d, s>> : d \in {d \in Installed(st) : s \in Requires(d)}}
                \cup {<<s, p>> : p \in Requires(s) \cap Installed(st)},
      extras |-> IF IsExt(s) /\ l.extras_on_base > 0
                 THEN st.extras \cup {<<Base(s), s, l.extras_on_base>>}
                 ELSE st.extras]
(* ---- add(resource): one transaction ---------------------------------- *)
\* _precheck: decided once, against the state at the start of the call
Skip(st, s) == s \in Installed(st) \/ (IsExt(s) /\ Base(s) \notin Installed(st))
Todo(st, r) == SelectSeq(Res(r).lex, LAMBDA s : ~Skip(st, s))
RECURSIVE InsertAll(_, _)
\* -> [ok, st]: ok = FALSE if some insertion is impossible (duplicate lexicon)
InsertAll(st, todo) ==
  IF todo = <<>> THEN [ok |-> TRUE, st |-> st]
  ELSE IF ~CanInsert(st, Head(todo)) THEN [ok |-> FALSE, st |-> st]
  ELSE InsertAll(InsertLex(st, Head(todo)), Tail(todo))
AddOutcome(st, r) ==
  IF Todo(st, r) = <<>> THEN "skip"
  ELSE IF InsertAll(st, Todo(st, r)).ok THEN "ok" ELSE "fail"
\* the committed state after add(r): nothing changes unless everything succeeded
AddResult(st, r) ==
  IF AddOutcome(st, r) = "ok" THEN InsertAll(st, Todo(st, r)).st ELSE st

(* ---- remove ---------------------------------------------------------- *)
\* deleting lexicon s with everything that extends it (FK cascade)
RemoveLex(st, s) ==
  LET T == Family(st, s) IN
    [inst |-> SelectSeq(st.inst, LAMBDA x : x \notin T),
     ilis |-> st.ilis,                     \* the ILI inventory is shared and stays
     look |-> st.look,                     \* lookup tables only grow
     links |-> {p \in st.links : p[1] \notin T /\ p[2] \notin T},
     extras |-> {t \in st.extras : t[1] \notin T /\ t[2] \notin T}]
\* the known deviation: tags / pronunciations have no owner column, so rows an
\* extension attached to forms of a base that stays installed survive
DevRemoveLexKeepsExtras(st, s) ==
  LET T == Family(st, s) IN
    [RemoveLex(st, s) EXCEPT !.extras = {t \in st.extras : t[1] \notin T}]

DbOf(st) == [k \in DOMAIN st.inst |->
               [id |-> Lex(st.inst[k]).id, version |-> Lex(st.inst[k]).version,
                lang |-> Lex(st.inst[k]).lang]]
\* the lexicons matched by the specifier, as a sequence in order of addition
Matched(st, arg) ==
  LET ks == Select(DbOf(st), arg, "~") IN
    SelectSeq(st.inst, LAMBDA s : \E k \in ks : st.inst[k] = s)
RECURSIVE RemoveSeq(_, _, _)
\* one transaction per matched lexicon; `n' = how many complete before a fault
RemoveSeq(st, todo, n) ==
  IF todo = <<>> \/ n = 0 THEN st
  ELSE IF Head(todo) \notin Installed(st) THEN RemoveSeq(st, Tail(todo), n - 1)
  ELSE RemoveSeq(RemoveLex(st, Head(todo)), Tail(todo), n - 1)
RECURSIVE DevRemoveSeq(_, _, _)
DevRemoveSeq(st, todo, n) ==
  IF todo = <<>> \/ n = 0 THEN st
  ELSE IF Head(todo) \notin Installed(st) THEN DevRemoveSeq(st, Tail(todo), n - 1)
  ELSE DevRemoveSeq(DevRemoveLexKeepsExtras(st, Head(todo)), Tail(todo), n - 1)
RemoveOutcome(st, arg) == IF SelectError(DbOf(st), arg, "~") THEN "err" ELSE "ok"
RemoveResult(st, arg) == RemoveSeq(st, Matched(st, arg), Len(Matched(st, arg)))
DevRemoveResult(st, arg) == DevRemoveSeq(st, Matched(st, arg), Len(Matched(st, arg)))

(* ---- ILI index files -------------------------------------------------- *)
AddIliResult(st, f) ==
  LET rows == IliFile(f).rows
      listed == {rows[k][1] : k \in DOMAIN rows}
      \* a later row for the same id overrides an earlier one
      lastrow(i) == LET ks == {k \in DOMAIN rows : rows[k][1] = i} IN
                      rows[CHOOSE k \in ks : \A j \in ks : k >= j] IN
    [st EXCEPT !.ilis = {t \in st.ilis : t[1] \notin listed}
                          \cup {<<i, lastrow(i)[2], lastrow(i)[3]>> : i \in listed},
               !.look = [st.look EXCEPT !.status = @ \cup {rows[k][2] : k \in DOMAIN rows}]]

(* ---- what must always hold of a committed state ---------------------- *)
NoDuplicates(st) == \A j, k \in DOMAIN st.inst : st.inst[j] = st.inst[k] => j = k
ExtHasBase(st) == \A s \in Installed(st) : IsExt(s) => Base(s) \in Installed(st)
\* a base is always added before its extensions
BaseFirst(st) == \A j, k \in DOMAIN st.inst : Base(st.inst[k]) = st.inst[j] => j < k
LinksInStep(st) ==
  st.links = {<<d, p>> \in Installed(st) \X AllSpecs : p \in Requires(d) /\ p \in Installed(st)}
\* no residue: rows attached to a base come from installed extensions only
NoResidue(st) ==
  st.extras = {<<Base(e), e, Lex(e).extras_on_base>> :
                  e \in {e \in Installed(st) : IsExt(e) /\ Lex(e).extras_on_base > 0}}
LookupsCover(st) ==
  /\ \A s \in Installed(st) : Rng(Lex(s).reltypes) \subseteq st.look.rel
                              /\ Rng(Lex(s).lexfiles) \subseteq st.look.lexfile
  /\ \A t \in st.ilis : t[2] \in st.look.status
IlisCover(st) == \A s \in Installed(st) : \A t \in Rng(Lex(s).ilis) : t[2] \in IliIds(st)
IliIdsUnique(st) == \A t, u \in st.ilis : t[1] = u[1] => t = u
Canonical(st) == /\ NoDuplicates(st) /\ ExtHasBase(st) /\ BaseFirst(st) /\ LinksInStep(st)
                 /\ NoResidue(st) /\ LookupsCover(st) /\ IlisCover(st) /\ IliIdsUnique(st)
=============================================================================
