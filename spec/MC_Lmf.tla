-------------------------------- MODULE MC_Lmf --------------------------------
(* Algebra of Project on a small document whose optional features are switched  *)
(* on one at a time: projection is idempotent, monotone in the version, the     *)
(* identity on documents that use only features of the version.                 *)
EXTENDS WnLmf, TLC
VARIABLE feats
Features == {"logo", "requires", "pron", "formid", "subcat", "members", "lexfile", "lframes",
             "eframes", "frameid", "framesenses"}
Has(f) == f \in feats
Doc == [
 lex |-> << <<0, "Lexicon", "l", "1", "L", "en", "e", "lic", "~", "~", IF Has("logo") THEN "logo.png" ELSE "~",
              "~", "~", "~", "~">> >>,
 req |-> IF Has("requires") THEN << <<0, 0, "d", "1", "~">> >> ELSE <<>>,
 entry |-> << <<0, 0, "w1", FALSE, "~", "own", "cat", "~", "n">> >>,
 form |-> << <<0, 0, 1, FALSE, IF Has("formid") THEN "f1" ELSE "~", "cats", "~">> >>,
 pron |-> IF Has("pron") THEN << <<0, 0, 0, 0, "kat", "~", "~", TRUE, "~">> >> ELSE <<>>,
 tag |-> << <<0, 0, 0, 0, "sg", "number">> >>,
 sense |-> << <<0, 0, 0, FALSE, "w1-1", "s1", "~", TRUE, "~", IF Has("subcat") THEN <<"sb1">> ELSE <<>> >> >>,
 srel |-> <<>>, sex |-> << <<0, 0, 0, 0, "ex", "~", "{\"source\":\"s\"}">> >>, count |-> <<>>,
 eframe |-> IF Has("eframes") THEN << <<0, 0, 0, IF Has("frameid") THEN "sb9" ELSE "~", "frame",
                                        IF Has("framesenses") THEN <<"w1-1">> ELSE <<>> >> >> ELSE <<>>,
 synset |-> << <<0, 0, FALSE, "s1", "i1", "n", "~", TRUE, IF Has("members") THEN <<"w1-1">> ELSE <<>>,
                 IF Has("lexfile") THEN "noun.animal" ELSE "~", "~", "~">> >>,
 def |-> <<>>, yrel |-> <<>>, yex |-> <<>>,
 lframe |-> IF Has("lframes") THEN << <<0, 0, IF Has("frameid") THEN "sb1" ELSE "~", "frame",
                                        IF Has("framesenses") THEN <<"w1-1">> ELSE <<>> >> >> ELSE <<>> ]
Init == feats = {}
Next == \E f \in Features \ feats : feats' = feats \cup {f}
\* a projected document, seen again as sequences (order is irrelevant here)
Seqs(P) == [t \in Tables |-> LET RECURSIVE F(_)
                                 F(S) == IF S = {} THEN <<>> ELSE LET x == CHOOSE x \in S : TRUE IN <<x>> \o F(S \ {x})
                             IN F(P[t])]
Idempotent == \A v \in Versions : Project(Seqs(Project(Doc, v)), v) = Project(Doc, v)
NewerKeepsMore == \A t \in Tables :
   Cardinality(Project(Doc, "1.0")[t]) <= Cardinality(Project(Doc, "1.3")[t]) \/ t = "eframe"
SameFrom11 == Project(Doc, "1.1") = Project(Doc, "1.2") /\ Project(Doc, "1.2") = Project(Doc, "1.3")
IdentityWhenExpressible ==
  /\ (feats \cap {"eframes", "framesenses"} = {}) => Expressible(Doc, "1.3")
  /\ (feats \subseteq {"eframes", "framesenses"}) => Expressible(Doc, "1.0")
OldDropsNewFeatures ==
  LET P == Project(Doc, "1.0") IN
    P.req = {} /\ P.pron = {} /\ P.lframe = {} /\ \A r \in P.lex : r[11] = "~"
=============================================================================
