------------------------------ MODULE Judge_C08 ------------------------------
(* Trace validation for C08: for a database (lexicons in order of addition)   *)
(* every recorded answer of wn.lexicons(), wn.Wordnet() and wn.remove() to a *)
(* specifier argument and language is compared with WnSelect.                *)
EXTENDS WnSelect, Json, IOUtils, TLC
Recs == ndJsonDeserialize(IOEnv.TRACE_FILE)
VARIABLE i
Init == i \in 1..Len(Recs)
Next == UNCHANGED i
Rng(s) == {s[k] : k \in DOMAIN s}
SpecsAt(db, ks) == {SpecOf(db[k]) : k \in ks}
\* q rows: <<arg, lang, lst, lexicons, wst, wordnet lexicons>>
LexiconsOK(db, t) ==
  /\ t[3] = "ok"
  /\ Rng(t[4]) = SpecsAt(db, Select(db, t[1], t[2]))
WordnetOK(db, t) ==
  IF SelectError(db, t[1], t[2]) THEN t[5] = "err"
  ELSE t[5] = "ok" /\ Rng(t[6]) = SpecsAt(db, Select(db, t[1], t[2]))
\* what the pinned code did (first added version; LIMIT by the whole argument)
DevBareIdSelection(db, t) ==
  /\ ~(LexiconsOK(db, t) /\ WordnetOK(db, t))
  /\ t[3] = "ok" /\ Rng(t[4]) = SpecsAt(db, DevSelect(db, t[1], t[2]))
  /\ IF DevSelect(db, t[1], t[2]) = {} /\ (t[1] # "*" \/ t[2] # "~") THEN t[5] = "err"
     ELSE t[5] = "ok" /\ Rng(t[6]) = SpecsAt(db, DevSelect(db, t[1], t[2]))
\* rm rows: <<arg, st, remaining lexicons>>: remove() takes the selected
\* lexicons away (the test lexicons have no extensions)
RemoveOK(db, t) ==
  IF SelectError(db, t[1], "~") THEN t[2] = "err" /\ Rng(t[3]) = SpecsAt(db, DOMAIN db)
  ELSE t[2] = "ok" /\ Rng(t[3]) = SpecsAt(db, DOMAIN db \ Select(db, t[1], "~"))
Rows(S, P(_), name) == LET bad == {t \in S : ~P(t)} IN
                         IF bad = {} THEN {} ELSE {<<name, CHOOSE t \in bad : TRUE>>}
Fails(r) ==
  IF "timeout" \in DOMAIN r THEN {<<"Terminates", "-">>} ELSE
  LET P1(t) == LexiconsOK(r.db, t) \/ DevBareIdSelection(r.db, t)
      P2(t) == WordnetOK(r.db, t) \/ DevBareIdSelection(r.db, t)
      P3(t) == RemoveOK(r.db, t) IN
    Rows(Rng(r.q), P1, "LexiconsSelection") \cup Rows(Rng(r.q), P2, "WordnetSelection")
    \cup Rows(Rng(r.rm), P3, "RemoveSelection")
Devs(r) ==
  IF "timeout" \in DOMAIN r THEN {} ELSE
  IF \E t \in Rng(r.q) : DevBareIdSelection(r.db, t) THEN {"DevBareIdSelection"} ELSE {}
Judge == LET r == Recs[i]  f == Fails(r)  d == Devs(r) IN
  /\ f = {} \/ PrintT(ToJson([k |-> "FAIL", id |-> r.id, c |-> f]))
  /\ d = {} \/ PrintT(ToJson([k |-> "DEV", id |-> r.id, d |-> d]))
=============================================================================
