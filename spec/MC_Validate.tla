----------------------------- MODULE MC_Validate -----------------------------
(* Design-level facts behind C18: the relation tables are well formed, and on  *)
(* small lexicons (two synsets, relations added one at a time from a pool)    *)
(* the checks are independent of each other in the way the property states.   *)
EXTENDS WnValidate, TLC
VARIABLE L
\* the reverse table is an involution on its domain and stays inside the
\* vocabularies of its kind
ASSUME \A p \in ReversePairs : <<p[2], p[1]>> \in ReversePairs
ASSUME \A p \in ReversePairs : (p[1] \in SynsetRelTypes <=> p[2] \in SynsetRelTypes)
ASSUME \A p, q \in ReversePairs : p[1] = q[1] => p = q
ASSUME {"hypernym", "hyponym", "instance_hypernym", "instance_hyponym"} \subseteq SynsetRelTypes
ASSUME Reverse("hypernym") = "hyponym" /\ Reverse("antonym") = "antonym"

Base == [id |-> "l", forms |-> <<>>, frames |-> <<>>,
         entries |-> << <<"w1", "cat">>, <<"w2", "dog">> >>,
         senses |-> << <<"w1-1", "w1", "s1", 1>>, <<"w2-1", "w2", "s2", 2>> >>,
         synsets |-> << <<"s1", "i1", "n", FALSE, <<"d1">>, <<>>>>,
                        <<"s2", "", "v", FALSE, <<"d2">>, <<>>>> >>,
         srels |-> <<>>, ssrels |-> <<>>, blank |-> <<"">>]
Pool == { <<"s1", "hypernym", "s2", "~">>, <<"s2", "hyponym", "s1", "~">>,
          <<"s1", "similar", "s1", "~">>, <<"s1", "also", "zz", "~">>,
          <<"s2", "antonym", "s1", "~">>, <<"s1", "hypernym", "s2", "t">> }
Init == L = Base
Next == \E r \in Pool : Len(L.ssrels) < 3 /\ L' = [L EXCEPT !.ssrels = Append(@, r)]
\* no relations, no relation findings; every relation finding has a source that
\* declares a relation
RelFindingsNeedRelations ==
  \A c \in {"E401", "W402", "W403", "W404", "W501", "W502"} :
     Hi(L, c) \subseteq {r[1] : r \in Rng(AllRels(L))} \cup {r[3] : r \in Rng(AllRels(L))}
\* a lexicon closed under reverse has no W404 item
ClosedHasNoW404 ==
  (\A r \in Regular(L) : HasReverse(r[2]) => <<r[3], Reverse(r[2]), r[1]>> \in Regular(L))
     => W404hi(L) = {}
\* W403 fires exactly when a relation (with its dc:type) is listed twice
W403IffDuplicate == (W403(L) = {}) <=> (Len(AllRels(L)) = Cardinality(Rng(AllRels(L))))
\* E401 is empty iff every target exists
E401IffDangling == (E401(L) = {}) <=> (\A r \in Rng(L.ssrels) : r[3] \in SynsetIds(L))
LoBelowHi == \A c \in Codes : Lo(L, c) \subseteq Hi(L, c)
SelectedIsMonotone == Selected({"E"}) \cup Selected({"W"}) = Codes /\ Selected({"W5", "X"}) = {}
=============================================================================
