CONSTANT MaxLen = 3
INIT Init
NEXT Next
CHECK_DEADLOCK FALSE
INVARIANT Emit
