---------------------------- MODULE Judge_C13 ----------------------------
(* Trace validation for C13: every record is one hypernym graph together    *)
(* with everything wn.taxonomy returned on it; TLC evaluates the            *)
(* admissibility predicates of WnTaxonomy and prints the records it cannot  *)
(* explain (FAIL) or can explain only by a named deviation (DEV).           *)
EXTENDS WnTaxonomy, Json, IOUtils
Recs == ndJsonDeserialize(IOEnv.TRACE_FILE)
VARIABLE i
Init == i \in 1..Len(Recs)
Next == UNCHANGED i

GraphOf(r) == Prep([n |-> r.g.n,
               hyp |-> {<<e[1], e[2]>> : e \in Rng(r.g.hyp)},
               hypo |-> {<<e[1], e[2]>> : e \in Rng(r.g.hypo)},
               pos |-> r.g.pos])

PathsOK(G, o) == \A t \in Rng(o.paths) :
   /\ t[3] = "ok"
   /\ Rng(t[4]) = PathsSim(G, t[1], t[2])
MinOK(G, o) == \A t \in Rng(o.mind) : t[3] = "ok" /\ t[4] = MinDepth(G, t[1], t[2])
MaxOK(G, o) == \A t \in Rng(o.maxd) : t[3] = "ok" /\ t[4] = MaxDepth(G, t[1], t[2])
\* pairs: <<a, b, sim, st, common, st, lch, st, path>>
CommonOK(G, o) == \A t \in Rng(o.pairs) :
   /\ t[4] = "ok" /\ Rng(t[5]) = Common(G, t[1], t[2], t[3])
   /\ Len(t[5]) = Cardinality(Rng(t[5]))
LchOK(G, o) == \A t \in Rng(o.pairs) :
   /\ t[6] = "ok" /\ Rng(t[7]) \in LCHs(G, t[1], t[2], t[3])
   /\ Len(t[7]) = Cardinality(Rng(t[7]))
SpOK(G, o) == \A t \in Rng(o.pairs) :
   IF t[8] = "err" THEN -1 \in SPLens(G, t[1], t[2], t[3])
   ELSE /\ t[8] = "ok"
        /\ Len(t[9]) \in SPLens(G, t[1], t[2], t[3])
        /\ IsHypPath(G, t[1], t[2], t[9])
SpSymOK(G, o) == \A t, u \in Rng(o.pairs) :
   (t[1] = u[2] /\ t[2] = u[1] /\ t[3] = u[3]) =>
      /\ t[8] = u[8]
      /\ Len(t[9]) = Len(u[9])
\* bypos: <<pos, st, roots, st, leaves, st, depth>>
RootsOK(G, o) == \A t \in Rng(o.bypos) : t[2] = "ok" /\ Rng(t[3]) = Roots(G, t[1])
LeavesOK(G, o) == \A t \in Rng(o.bypos) : t[4] = "ok" /\ Rng(t[5]) = Leaves(G, t[1])

\* order in which taxonomy_depth() visits the synsets of a part of speech
Sorted(S) == LET RECURSIVE Srt(_)
                 Srt(T) == IF T = {} THEN <<>>
                           ELSE LET m == SeqMin(T) IN <<m>> \o Srt(T \ {m})
             IN Srt(S)
\* (the synsets of the extension, X, come after those of the lexicon it extends)
VisitOrder(G, pos, X) ==
  LET same == {x \in Nodes(G) : G.pos[x] = pos}
      twin == IF pos \in {"a", "s"}
              THEN {x \in Nodes(G) : G.pos[x] \in {"a", "s"} /\ G.pos[x] # pos} ELSE {}
  IN Sorted(same \ X) \o Sorted(same \cap X) \o Sorted(twin \ X) \o Sorted(twin \cap X)
ExtNodes(r) == IF "xnodes" \in DOMAIN r.g THEN Rng(r.g.xnodes) ELSE {}
TaxDepthOK(G, t) == t[6] = "ok" /\ t[7] = TaxDepth(G, t[1])
\* known deviation: the `seen' shortcut of taxonomy_depth under-reports on
\* graphs with a directed cycle; explained only if the value is exactly what
\* the transcribed algorithm yields on this cyclic graph.
DevTaxDepthSeenShortcut(G, t, X) ==
  /\ Cyclic(G) /\ ~TaxDepthOK(G, t)
  /\ t[6] = "ok" /\ t[7] = TaxDepthAlgo(G, VisitOrder(G, t[1], X), {}, 0)

Fails(r) ==
  IF "timeout" \in DOMAIN r THEN {"Terminates"} ELSE
  LET G == GraphOf(r)  o == r.c13 IN
     (IF PathsOK(G, o) THEN {} ELSE {"HypernymPaths"})
     \cup (IF MinOK(G, o) THEN {} ELSE {"MinDepth"})
     \cup (IF MaxOK(G, o) THEN {} ELSE {"MaxDepth"})
     \cup (IF CommonOK(G, o) THEN {} ELSE {"CommonHypernyms"})
     \cup (IF LchOK(G, o) THEN {} ELSE {"LowestCommonHypernyms"})
     \cup (IF SpOK(G, o) THEN {} ELSE {"ShortestPath"})
     \cup (IF SpSymOK(G, o) THEN {} ELSE {"ShortestPathSymmetric"})
     \cup (IF RootsOK(G, o) THEN {} ELSE {"Roots"})
     \cup (IF LeavesOK(G, o) THEN {} ELSE {"Leaves"})
     \cup (IF \A t \in Rng(o.bypos) : TaxDepthOK(G, t) \/ DevTaxDepthSeenShortcut(G, t, ExtNodes(r))
           THEN {} ELSE {"TaxonomyDepth"})
Devs(r) ==
  IF "timeout" \in DOMAIN r THEN {} ELSE
  LET G == GraphOf(r) IN
    IF \E t \in Rng(r.c13.bypos) : DevTaxDepthSeenShortcut(G, t, ExtNodes(r))
    THEN {"DevTaxDepthSeenShortcut"} ELSE {}

Judge == LET r == Recs[i]  f == Fails(r)  d == Devs(r) IN
  /\ f = {} \/ PrintT(ToJson([k |-> "FAIL", id |-> r.id, c |-> f]))
  /\ d = {} \/ PrintT(ToJson([k |-> "DEV", id |-> r.id, d |-> d]))
=============================================================================
