CONSTANT N = 3
INIT Init
NEXT Next
CHECK_DEADLOCK FALSE
INVARIANT ClosureRefines
INVARIANT PathsRefines
INVARIANT PathsSimple
INVARIANT ClosureIsReachable
