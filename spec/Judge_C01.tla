------------------------------ MODULE Judge_C01 ------------------------------
(* Trace validation for C01: what the public API reports for a lexicon against   *)
(* the content of the document it was added from (semantic normal form, tables   *)
(* of WnLmf).  r.li selects the lexicon of the resource; r.api are the observed  *)
(* tables of harness/apiobs.py.                                                  *)
EXTENDS WnLmf, Json, IOUtils, TLC
Recs == ndJsonDeserialize(IOEnv.TRACE_FILE)
VARIABLE i
Init == i \in 1..Len(Recs)
Next == UNCHANGED i
Of(tab, li) == {r \in Rng(tab) : r[1] = li}
SeqOf(tab, li) == SelectSeq(tab, LAMBDA r : r[1] = li)
\* id of entry ei / sense (ei, si) / synset yi of lexicon li
EntryId(T, li, ei) == (CHOOSE r \in Of(T.entry, li) : r[2] = ei)[3]
SenseId(T, li, ei, si) == (CHOOSE r \in Of(T.sense, li) : r[2] = ei /\ r[3] = si)[5]
SynsetId(T, li, yi) == (CHOOSE r \in Of(T.synset, li) : r[2] = yi)[4]
Mine(tab, o) == {r \in Rng(tab) : r[1] = o}

LexOK(T, li, A, o) ==
  LET l == CHOOSE r \in Of(T.lex, li) : TRUE IN
    Mine(A.alex, o) = {<<o, l[3], l[4], l[5], l[6], l[7], l[8], l[9], l[10], l[11], l[12]>>}
\* words in document order with part of speech and metadata
WordsOK(T, li, A, o) ==
  {<<r[2], r[3], r[4], r[5]>> : r \in Mine(A.aword, o)}
     = {<<r[2], r[3], r[9], r[5]>> : r \in Of(T.entry, li)}
\* lemma first, then the further forms in document order, with id and script
FormsOK(T, li, A, o) ==
  {<<r[2], r[3], r[4], r[5], r[6]>> : r \in Mine(A.aform, o)}
     = {<<r[3], 0, r[7], "~", r[8]>> : r \in Of(T.entry, li)}
       \cup {<<EntryId(T, li, r[2]), r[3], r[6], r[5], r[7]>> : r \in Of(T.form, li)}
TagsOK(T, li, A, o) ==
  {<<r[2], r[3], r[4], r[5], r[6]>> : r \in Mine(A.atag, o)}
     = {<<EntryId(T, li, r[2]), r[3], r[4], r[5], r[6]>> : r \in Of(T.tag, li)}
PronsOK(T, li, A, o) ==
  {<<r[2], r[3], r[4], r[5], r[6], r[7], r[8], r[9]>> : r \in Mine(A.apron, o)}
     = {<<EntryId(T, li, r[2]), r[3], r[4], r[5], r[6], r[7], r[8], r[9]>> : r \in Of(T.pron, li)}
\* senses in entry order
SensesOK(T, li, A, o) ==
  {<<r[2], r[3], r[5], r[6], r[7], r[8], r[9]>> : r \in Mine(A.asense, o)}
     = {<<EntryId(T, li, r[2]), r[3], r[5], r[6], r[8], r[9], r[7]>> : r \in Of(T.sense, li)}
SenseExamplesOK(T, li, A, o) ==
  {<<r[2], r[3], r[4]>> : r \in Mine(A.asex, o)}
     = {<<SenseId(T, li, r[2], r[3]), r[4], r[5]>> : r \in Of(T.sex, li)}
CountsOK(T, li, A, o) ==
  {<<r[2], r[3], r[4], r[5]>> : r \in Mine(A.acount, o)}
     = {<<SenseId(T, li, r[2], r[3]), r[4], r[5], r[6]>> : r \in Of(T.count, li)}
\* subcategorization frames of a sense: entry-level frames (all senses of the
\* entry unless listed) and lexicon-level frames (listed senses and subcat)
FrameLinks(T, li) ==
  UNION {IF f[6] = <<>> THEN {<<s[5], f[5]>> : s \in {s \in Of(T.sense, li) : s[2] = f[2]}}
         ELSE {<<sid, f[5]>> : sid \in Rng(f[6])} : f \in Of(T.eframe, li)}
  \cup UNION {{<<sid, f[4]>> : sid \in Rng(f[5])} : f \in Of(T.lframe, li)}
  \cup UNION {{<<s[5], f[4]>> : f \in {f \in Of(T.lframe, li) : f[3] \in Rng(s[10])}} : s \in Of(T.sense, li)}
FramesOK(T, li, A, o) == {<<r[2], r[3]>> : r \in Mine(A.aframe, o)} = FrameLinks(T, li)
\* synsets: pos, ILI, lexicalized, lexfile, metadata, first definition
FirstDefOf(T, li, yi) == LET ds == {d \in Of(T.def, li) : d[2] = yi /\ d[3] = 0} IN
                           IF ds = {} THEN "~" ELSE LET t == (CHOOSE d \in ds : TRUE)[4] IN
                                                      IF t = "" THEN "~" ELSE t
SynsetsOK(T, li, A, o) ==
  {<<r[2], r[3], r[4], r[5], r[6], r[7], r[8], r[9]>> : r \in Mine(A.asyn, o)}
     = {<<r[2], r[4], r[6], r[5], r[8], r[10], r[7], FirstDefOf(T, li, r[2])>> : r \in Of(T.synset, li)}
\* proposed ILIs carry their definition
ProposedOK(T, li, A, o) == \A r \in Mine(A.asyn, o) :
  LET y == CHOOSE y \in Of(T.synset, li) : y[4] = r[3] IN
    /\ r[11] = (IF y[5] = "in" THEN y[11] ELSE "~")
    /\ r[13] = (IF y[5] = "in" THEN y[12] ELSE "~")      \* ... and its metadata
\* members: the declared order first, then the remaining senses of the synset
MembersOK(T, li, A, o) == \A r \in Mine(A.asyn, o) :
  LET y == CHOOSE y \in Of(T.synset, li) : y[4] = r[3]
      all == {s[5] : s \in {s \in Of(T.sense, li) : s[6] = r[3]}}
      decl == SelectSeq(y[9], LAMBDA m : m \in all) IN
    /\ Rng(r[10]) = all /\ Len(r[10]) = Cardinality(all)
    /\ SubSeq(r[10], 1, Len(decl)) = decl
SynsetExamplesOK(T, li, A, o) ==
  {<<r[2], r[3], r[4]>> : r \in Mine(A.ayex, o)}
     = {<<SynsetId(T, li, r[2]), r[3], r[4]>> : r \in Of(T.yex, li)}
Cl(ok, name) == IF ok THEN {} ELSE {name}
(* ---- a base lexicon seen together with its extension (r.xli, r.xapi) ---------- *)
\* written form of form fi of word wid as observed
FormStr(A, o, wid, fi) == (CHOOSE f \in Mine(A.aform, o) : f[2] = wid /\ f[3] = fi)[4]
\* tags / pronunciations of the forms of base words, by written form
ObsTags(A, o) == {<<r[2], FormStr(A, o, r[2], r[3]), r[5], r[6]>> : r \in Mine(A.atag, o)}
ObsProns(A, o) == {<<r[2], FormStr(A, o, r[2], r[3]), r[5], r[6], r[7], r[8], r[9]>> : r \in Mine(A.apron, o)}
\* written form of a form row of the base document: lemma (fi = 0) or further form
DocFormStr(T, li, ei, fi) ==
  IF fi = 0 THEN (CHOOSE e \in Of(T.entry, li) : e[2] = ei)[7]
  ELSE (CHOOSE f \in Of(T.form, li) : f[2] = ei /\ f[3] = fi)[6]
\* the base entry / base form that an external entry / form of the extension names
BaseEi(T, li, xi, xei) == (CHOOSE e \in Of(T.entry, li) : e[3] = EntryId(T, xi, xei))[2]
\* where a tag / pronunciation row of the extension lands: on the base lemma
\* (ExternalLemma), on the base form with that id (ExternalForm), or on a form
\* the extension itself adds to the external entry
ExtTarget(T, li, xi, xei, xfi) ==
  LET e == CHOOSE e \in Of(T.entry, xi) : e[2] = xei IN
  IF xfi = 0 THEN <<e[3], DocFormStr(T, li, BaseEi(T, li, xi, xei), 0)>>
  ELSE LET f == CHOOSE f \in Of(T.form, xi) : f[2] = xei /\ f[3] = xfi IN
         IF f[4] THEN <<e[3], (CHOOSE b \in Of(T.form, li) : b[2] = BaseEi(T, li, xi, xei) /\ b[5] = f[5])[6]>>
         ELSE <<e[3], f[6]>>
OnExternalEntry(T, xi, r) == (CHOOSE e \in Of(T.entry, xi) : e[2] = r[2])[4]
ExpTags(T, li, xi) ==
  {<<EntryId(T, li, r[2]), DocFormStr(T, li, r[2], r[3]), r[5], r[6]>> : r \in Of(T.tag, li)}
  \cup {<<ExtTarget(T, li, xi, r[2], r[3])[1], ExtTarget(T, li, xi, r[2], r[3])[2], r[5], r[6]>> :
           r \in {r \in Of(T.tag, xi) : OnExternalEntry(T, xi, r)}}
ExpProns(T, li, xi) ==
  {<<EntryId(T, li, r[2]), DocFormStr(T, li, r[2], r[3]), r[5], r[6], r[7], r[8], r[9]>> : r \in Of(T.pron, li)}
  \cup {<<ExtTarget(T, li, xi, r[2], r[3])[1], ExtTarget(T, li, xi, r[2], r[3])[2], r[5], r[6], r[7], r[8], r[9]>> :
           r \in {r \in Of(T.pron, xi) : OnExternalEntry(T, xi, r)}}
\* forms of base words: the base's forms plus those the extension adds to them
ExpForms(T, li, xi) ==
  {<<e[3], e[7]>> : e \in Of(T.entry, li)} \cup {<<EntryId(T, li, f[2]), f[6]>> : f \in Of(T.form, li)}
  \cup {<<EntryId(T, xi, f[2]), f[6]>> : f \in {f \in Of(T.form, xi) : ~f[4] /\ OnExternalEntry(T, xi, f)}}
\* senses of base words: the base's senses plus the new senses the extension hangs on them
ExpSenses(T, li, xi) ==
  {<<EntryId(T, li, s[2]), s[5]>> : s \in Of(T.sense, li)}
  \cup {<<EntryId(T, xi, s[2]), s[5]>> : s \in {s \in Of(T.sense, xi) : ~s[4] /\ OnExternalEntry(T, xi, s)}}
\* examples / counts on base senses incl. those on ExternalSense elements
ExpSenseExamples(T, li, xi) ==
  {<<SenseId(T, li, r[2], r[3]), r[5]>> : r \in Of(T.sex, li)}
  \cup {<<SenseId(T, xi, r[2], r[3]), r[5]>> : r \in {r \in Of(T.sex, xi) : OnExternalEntry(T, xi, r)}}
ExpCounts(T, li, xi) ==
  {<<SenseId(T, li, r[2], r[3]), r[5], r[6]>> : r \in Of(T.count, li)}
  \cup {<<SenseId(T, xi, r[2], r[3]), r[5], r[6]>> : r \in {r \in Of(T.count, xi) : OnExternalEntry(T, xi, r)}}
\* examples on base synsets incl. those on ExternalSynset elements
IsExtSyn(T, xi, yi) == (CHOOSE y \in Of(T.synset, xi) : y[2] = yi)[3]
ExpSynsetExamples(T, li, xi) ==
  {<<SynsetId(T, li, r[2]), r[4]>> : r \in Of(T.yex, li)}
  \cup {<<SynsetId(T, xi, r[2]), r[4]>> : r \in {r \in Of(T.yex, xi) : IsExtSyn(T, xi, r[2])}}
ExtensionFails(r) ==
  IF r.xli < 0 THEN {} ELSE
  LET T == r.src  li == r.li  xi == r.xli  A == r.xapi  o == r.spec IN
    Cl(ObsTags(A, o) = ExpTags(T, li, xi), "ExtensionTags")
    \cup Cl(ObsProns(A, o) = ExpProns(T, li, xi), "ExtensionPronunciations")
    \cup Cl({<<f[2], f[4]>> : f \in Mine(A.aform, o)} = ExpForms(T, li, xi), "ExtensionForms")
    \cup Cl({<<s[2], s[5]>> : s \in Mine(A.asense, o)} = ExpSenses(T, li, xi), "ExtensionSenses")
    \* a new sense that the extension hangs on a base word is reported with all its attributes
    \cup Cl(\A s \in {s \in Of(T.sense, xi) : ~s[4] /\ OnExternalEntry(T, xi, s)} :
              \E q \in Mine(A.asense, o) :
                 /\ q[2] = EntryId(T, xi, s[2]) /\ q[5] = s[5] /\ q[4] = r.xspec
                 /\ q[6] = s[6] /\ q[7] = s[8] /\ q[8] = s[9] /\ q[9] = s[7],
            "ExtensionSenseAttributes")
    \cup Cl({<<x[2], x[4]>> : x \in Mine(A.asex, o)} = ExpSenseExamples(T, li, xi), "ExtensionSenseExamples")
    \cup Cl({<<x[2], x[4], x[5]>> : x \in Mine(A.acount, o)} = ExpCounts(T, li, xi), "ExtensionCounts")
    \cup Cl({<<x[2], x[4]>> : x \in Mine(A.ayex, o)} = ExpSynsetExamples(T, li, xi), "ExtensionSynsetExamples")
    \* the base lexicon viewed alone reports what it reported before the extension was added
    \* (senses, examples, counts, frames, synsets; forms / tags / pronunciations of an
    \* unselected extension are C04's listed findings and are left to it)
    \cup Cl(/\ Rng(r.bapi.asense) = Rng(r.api.asense) /\ Rng(r.bapi.asex) = Rng(r.api.asex)
            /\ Rng(r.bapi.acount) = Rng(r.api.acount) /\ Rng(r.bapi.aframe) = Rng(r.api.aframe)
            /\ Rng(r.bapi.asyn) = Rng(r.api.asyn) /\ Rng(r.bapi.ayex) = Rng(r.api.ayex)
            /\ Rng(r.bapi.aword) = Rng(r.api.aword),
            "BaseAloneUnchangedByExtension")
    \* the extension's own new words and synsets are reported with their content
    \cup Cl({w[3] : w \in Mine(A.aword, r.xspec)} = {e[3] : e \in {e \in Of(T.entry, xi) : ~e[4]}}, "ExtensionWords")
    \cup Cl({y[3] : y \in Mine(A.asyn, r.xspec)} = {y[4] : y \in {y \in Of(T.synset, xi) : ~y[3]}}, "ExtensionSynsets")
Fails(r) ==
  IF "timeout" \in DOMAIN r THEN {"Terminates"} ELSE
  IF r.st # "ok" THEN {"AddSucceeds"} ELSE
  LET T == r.src  li == r.li  A == r.api  o == r.spec IN
    Cl(LexOK(T, li, A, o), "LexiconAttributes") \cup Cl(WordsOK(T, li, A, o), "Words")
    \cup Cl(FormsOK(T, li, A, o), "Forms") \cup Cl(TagsOK(T, li, A, o), "Tags")
    \cup Cl(PronsOK(T, li, A, o), "Pronunciations") \cup Cl(SensesOK(T, li, A, o), "Senses")
    \cup Cl(SenseExamplesOK(T, li, A, o), "SenseExamples") \cup Cl(CountsOK(T, li, A, o), "Counts")
    \cup Cl(FramesOK(T, li, A, o), "Frames") \cup Cl(SynsetsOK(T, li, A, o), "Synsets")
    \cup Cl(ProposedOK(T, li, A, o), "ProposedIli") \cup Cl(MembersOK(T, li, A, o), "Members")
    \cup Cl(SynsetExamplesOK(T, li, A, o), "SynsetExamples")
    \cup ExtensionFails(r)
Judge == LET r == Recs[i]  f == Fails(r) IN
  f = {} \/ PrintT(ToJson([k |-> "FAIL", id |-> r.id, c |-> f]))
=============================================================================
