-------------------------------- MODULE WnLmf --------------------------------
(* WN-LMF documents in semantic normal form (harness/docs.py `flat`):          *)
(* relational tables with fixed columns, "~" = absent or empty, defaults made  *)
(* explicit, order carried by index columns.                                   *)
(*   Project(T, v)   what version v of the format can express of T             *)
(*   the structural acceptance rules of the reader (C20) over mutation records *)
EXTENDS Naturals, Sequences, FiniteSets
Rng(s) == {s[k] : k \in DOMAIN s}
Versions == {"1.0", "1.1", "1.2", "1.3"}
Old(v) == v = "1.0"
Put(row, k, val) == [row EXCEPT ![k] = val]
Map(tab, f(_)) == {f(r) : r \in Rng(tab)}

(* columns:                                                                    *)
(* lex    li kind id version label language email license url citation logo    *)
(*        meta extId extVersion extUrl                                         *)
(* req    li k id version url                                                  *)
(* entry  li ei id external meta lemmaKind writtenForm script pos              *)
(* form   li ei fi external id writtenForm script                              *)
(* pron   li ei fi k text variety notation phonemic audio                      *)
(* tag    li ei fi k text category                                             *)
(* sense  li ei si external id synset meta lexicalized adjposition subcat      *)
(* srel   li ei si k relType target meta                                       *)
(* sex    li ei si k text language meta                                        *)
(* count  li ei si k value meta                                                *)
(* eframe li ei k id frame senses                                              *)
(* synset li yi external id ili pos meta lexicalized members lexfile           *)
(*        iliDefText iliDefMeta                                                *)
(* def    li yi k text language sourceSense meta                               *)
(* yrel   li yi k relType target meta                                          *)
(* yex    li yi k text language meta                                           *)
(* lframe li k id frame senses                                                 *)
Project(T, v) ==
  LET plex(r) == IF Old(v) THEN Put(r, 11, "~") ELSE r
      pform(r) == IF Old(v) THEN Put(r, 5, "~") ELSE r
      psense(r) == IF Old(v) THEN Put(r, 10, <<>>) ELSE r
      psyn(r) == IF Old(v) THEN Put(Put(r, 9, <<>>), 10, "~") ELSE r
      pefr(r) == Put(r, 4, "~")                    \* entry-level frames have no id
      plfr(r) == Put(r, 5, <<>>)                   \* lexicon-level frames list no senses
      id(r) == r IN
  [lex |-> Map(T.lex, plex),
   req |-> IF Old(v) THEN {} ELSE Rng(T.req),
   entry |-> Rng(T.entry),
   form |-> Map(T.form, pform),
   pron |-> IF Old(v) THEN {} ELSE Rng(T.pron),
   tag |-> Rng(T.tag),
   sense |-> Map(T.sense, psense),
   srel |-> Rng(T.srel), sex |-> Rng(T.sex), count |-> Rng(T.count),
   eframe |-> IF Old(v) THEN Map(T.eframe, pefr) ELSE {},
   synset |-> Map(T.synset, psyn),
   def |-> Rng(T.def), yrel |-> Rng(T.yrel), yex |-> Rng(T.yex),
   lframe |-> IF Old(v) THEN {} ELSE Map(T.lframe, plfr)]
AsSets(T) ==
  [lex |-> Rng(T.lex), req |-> Rng(T.req), entry |-> Rng(T.entry), form |-> Rng(T.form),
   pron |-> Rng(T.pron), tag |-> Rng(T.tag), sense |-> Rng(T.sense), srel |-> Rng(T.srel),
   sex |-> Rng(T.sex), count |-> Rng(T.count), eframe |-> Rng(T.eframe),
   synset |-> Rng(T.synset), def |-> Rng(T.def), yrel |-> Rng(T.yrel), yex |-> Rng(T.yex),
   lframe |-> Rng(T.lframe)]
Tables == {"lex", "req", "entry", "form", "pron", "tag", "sense", "srel", "sex", "count",
           "eframe", "synset", "def", "yrel", "yex", "lframe"}
\* the tables in which two documents differ
Diff(A, B) == {t \in Tables : A[t] # B[t]}
\* a version can express T entirely
Expressible(T, v) == Project(T, v) = AsSets(T)
(* ---- the reader's acceptance rules (C20) ------------------------------------ *)
Elems10 == {"LexicalResource", "Lexicon", "LexicalEntry", "Lemma", "Form", "Tag", "Sense",
            "SenseRelation", "Example", "Count", "SyntacticBehaviour", "Synset", "Definition",
            "ILIDefinition", "SynsetRelation"}
Elems11 == Elems10 \cup {"Requires", "Extends", "Pronunciation", "LexiconExtension",
                          "ExternalLexicalEntry", "ExternalLemma", "ExternalForm", "ExternalSense",
                          "ExternalSynset"}
ElemsOf(v) == IF v = "1.0" THEN Elems10 ELSE Elems11
\* children that may occur at most once in their parent
SingleValued == {"Lemma", "ExternalLemma", "ILIDefinition", "Extends"}
\* attributes without which an element cannot be identified / resolved
Required(e) ==
  CASE e \in {"Lexicon", "LexiconExtension"} -> {"id", "version", "label", "language", "email", "license"}
    [] e \in {"Requires", "Extends"} -> {"id", "version"}
    [] e \in {"LexicalEntry", "ExternalLexicalEntry", "ExternalSense", "ExternalSynset", "ExternalForm"} -> {"id"}
    [] e = "Lemma" -> {"writtenForm", "partOfSpeech"}
    [] e = "Form" -> {"writtenForm"}
    [] e = "Tag" -> {"category"}
    [] e = "Sense" -> {"id", "synset"}
    [] e \in {"SenseRelation", "SynsetRelation"} -> {"target", "relType"}
    [] e = "Synset" -> {"id", "ili"}
    [] e = "SyntacticBehaviour" -> {"subcategorizationFrame"}
    [] OTHER -> {}
\* a mutation of a valid document of version v: [kind, elem, attr]
\*   none | requote | reorder | drop_attr | rename | foreign_elem | dup_child | unbalance
\*   | no_xmldecl | no_doctype | bad_version | blank_first_line | doctype_quotes
\*   | bom | leading_space (bytes before the declaration) | header_ws (blanks / CR after it)
HeaderOK(m) == m.kind \notin {"no_xmldecl", "no_doctype", "bad_version", "blank_first_line",
                              "bom", "leading_space"}
Accepts(v, m) ==
  CASE m.kind \in {"none", "requote", "reorder", "doctype_quotes", "comment", "redump", "charref", "header_ws"} -> TRUE
    [] m.kind = "drop_attr" -> m.attr \notin Required(m.elem)
    [] m.kind = "rename" -> FALSE
    [] m.kind = "foreign_elem" -> m.elem \in ElemsOf(v)
    [] m.kind = "dup_child" -> m.elem \notin SingleValued
    [] m.kind = "unbalance" -> FALSE
    [] OTHER -> HeaderOK(m)
\* mutations that leave the document's meaning untouched
Neutral(m) == m.kind \in {"none", "requote", "reorder", "doctype_quotes", "comment", "redump", "charref", "header_ws"}

\* what the pinned writer lost in addition: the metadata of examples
DropExampleMeta(P) == [P EXCEPT !.sex = {Put(r, 7, "~") : r \in @}, !.yex = {Put(r, 6, "~") : r \in @}]
=============================================================================
