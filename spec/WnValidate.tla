------------------------------ MODULE WnValidate ------------------------------
(* The eighteen checks of wn.validate as set comprehensions over a lexicon in  *)
(* relational form:                                                           *)
(*   L.id, L.forms (form ids), L.frames (frame ids),                          *)
(*   L.entries  : <<id, lemma>>                                               *)
(*   L.senses   : <<id, entry, synset>>                                       *)
(*   L.synsets  : <<id, ili, pos, hasIliDef, <<definition texts>>, <<example  *)
(*                  texts>>>>   (the texts as loaded)                         *)
(*   L.blank    : the texts among them that are empty after stripping white   *)
(*                space (strings are atoms for TLC: the harness classifies)   *)
(*   L.srels / L.ssrels : sense / synset relations <<source, type, target,    *)
(*                  dc:type or "~">>                                          *)
(* All of these are sequences (duplicates matter).                            *)
EXTENDS Naturals, Sequences, FiniteSets, Json
Rng(s) == {s[k] : k \in DOMAIN s}
Occ(s, P(_)) == Cardinality({k \in DOMAIN s : P(s[k])})
RelTables == JsonDeserialize("relations.json")
SenseRelTypes == Rng(RelTables.SENSE_RELATIONS)
SenseSynsetRelTypes == Rng(RelTables.SENSE_SYNSET_RELATIONS)
SynsetRelTypes == Rng(RelTables.SYNSET_RELATIONS)
ReversePairs == {<<p[1], p[2]>> : p \in Rng(RelTables.REVERSE_RELATIONS)}
HasReverse(t) == \E p \in ReversePairs : p[1] = t
Reverse(t) == (CHOOSE p \in ReversePairs : p[1] = t)[2]

EntryIds(L) == {e[1] : e \in Rng(L.entries)}
SenseIds(L) == {s[1] : s \in Rng(L.senses)}
SynsetIds(L) == {s[1] : s \in Rng(L.synsets)}
\* all identifiers of the lexicon, pooled, with multiplicity
AllIds(L) == <<L.id>> \o L.forms \o L.frames
             \o [k \in DOMAIN L.entries |-> L.entries[k][1]]
             \o [k \in DOMAIN L.senses |-> L.senses[k][1]]
             \o [k \in DOMAIN L.synsets |-> L.synsets[k][1]]
CountIn(s, x) == Cardinality({k \in DOMAIN s : s[k] = x})

E101(L) == {x \in Rng(AllIds(L)) : CountIn(AllIds(L), x) > 1}
\* a sense row carries the position of its entry (s[4]): entries are told apart by position,
\* not by id, since ids may be repeated or empty in the documents validate() is meant for
W201(L) == {L.entries[k][1] : k \in {k \in DOMAIN L.entries : ~\E s \in Rng(L.senses) : s[4] = k}}
\* senses of an entry that has several senses in the same synset
W202(L) == {s[1] : s \in {s \in Rng(L.senses) :
              Cardinality({k \in DOMAIN L.senses : L.senses[k][4] = s[4] /\ L.senses[k][3] = s[3]}) > 1}}
LemmaOf(L, s) == L.entries[s[4]][2]
\* lemma forms for which several entries share a synset (lower bound) / for
\* which the pair (lemma, synset) occurs several times at all (upper bound)
W203lo(L) == {LemmaOf(L, s) : s \in {s \in Rng(L.senses) :
                \E t \in Rng(L.senses) : t[4] # s[4] /\ t[3] = s[3]
                                         /\ LemmaOf(L, t) = LemmaOf(L, s)}}
W203hi(L) == {LemmaOf(L, s) : s \in {s \in Rng(L.senses) :
                Cardinality({k \in DOMAIN L.senses :
                   L.senses[k][3] = s[3] /\ LemmaOf(L, L.senses[k]) = LemmaOf(L, s)}) > 1}}
E204(L) == {s[1] : s \in {s \in Rng(L.senses) : s[3] \notin SynsetIds(L)}}
W301(L) == {ss[1] : ss \in {ss \in Rng(L.synsets) : ~\E s \in Rng(L.senses) : s[3] = ss[1]}}
RealIli(ss) == ss[2] # "" /\ ss[2] # "in"
W302(L) == {ss[1] : ss \in {ss \in Rng(L.synsets) : RealIli(ss) /\
              Cardinality({k \in DOMAIN L.synsets : L.synsets[k][2] = ss[2]}) > 1}}
W303(L) == {ss[1] : ss \in {ss \in Rng(L.synsets) : ss[2] = "in" /\ ~ss[4]}}
W304(L) == {ss[1] : ss \in {ss \in Rng(L.synsets) : RealIli(ss) /\ ss[4]}}
W305(L) == {ss[1] : ss \in {ss \in Rng(L.synsets) : Rng(ss[5]) \cap Rng(L.blank) # {}}}
W306(L) == {ss[1] : ss \in {ss \in Rng(L.synsets) : Rng(ss[6]) \cap Rng(L.blank) # {}}}
AllDefs(L) == UNION {{<<k, j>> : j \in DOMAIN L.synsets[k][5]} : k \in DOMAIN L.synsets}
DefText(L, p) == L.synsets[p[1]][5][p[2]]
W307(L) == {ss[1] : ss \in {ss \in Rng(L.synsets) : \E t \in Rng(ss[5]) :
              Cardinality({p \in AllDefs(L) : DefText(L, p) = t}) > 1}}
E401(L) == {r[1] : r \in {r \in Rng(L.srels) : r[3] \notin SenseIds(L) \cup SynsetIds(L)}}
           \cup {r[1] : r \in {r \in Rng(L.ssrels) : r[3] \notin SynsetIds(L)}}
W402(L) == {r[1] : r \in {r \in Rng(L.srels) :
              \/ r[3] \in SenseIds(L) /\ r[2] \notin SenseRelTypes
              \/ r[3] \in SynsetIds(L) /\ r[2] \notin SenseSynsetRelTypes}}
           \cup {r[1] : r \in {r \in Rng(L.ssrels) : r[2] \notin SynsetRelTypes}}
AllRels(L) == L.srels \o L.ssrels
W403(L) == {r[1] : r \in {r \in Rng(AllRels(L)) : CountIn(AllRels(L), r) > 1}}
\* relations that take part in the reverse check: sense->sense and synset->synset
Regular(L) == {<<r[1], r[2], r[3]>> : r \in {r \in Rng(L.srels) : r[3] \in SenseIds(L)}}
              \cup {<<r[1], r[2], r[3]>> : r \in Rng(L.ssrels)}
Unreciprocated(L) == {r \in Regular(L) : HasReverse(r[2]) /\ <<r[3], Reverse(r[2]), r[1]>> \notin Regular(L)}
\* items are keyed by the target that lacks the reverse relation; whether a
\* target that does not exist is listed is left open
W404lo(L) == {r[3] : r \in {r \in Unreciprocated(L) : r[3] \in SenseIds(L) \cup SynsetIds(L)}}
W404hi(L) == {r[3] : r \in Unreciprocated(L)}
PosOf(L, id) == (CHOOSE ss \in Rng(L.synsets) : ss[1] = id)[3]
\* hypernym of another part of speech (a missing target is E401's business)
W501(L) == {r[1] : r \in {r \in Rng(L.ssrels) : r[2] = "hypernym" /\ r[3] \in SynsetIds(L)
                           /\ PosOf(L, r[1]) # PosOf(L, r[3])}}
W502(L) == {r[1] : r \in {r \in Rng(AllRels(L)) : r[1] = r[3]}}

Codes == {"E101", "W201", "W202", "W203", "E204", "W301", "W302", "W303", "W304", "W305",
          "W306", "W307", "E401", "W402", "W403", "W404", "W501", "W502"}
\* the admissible key sets of a check: [lo, hi] bounds (equal for most)
Lo(L, c) == CASE c = "E101" -> E101(L) [] c = "W201" -> W201(L) [] c = "W202" -> W202(L)
   [] c = "W203" -> W203lo(L) [] c = "E204" -> E204(L) [] c = "W301" -> W301(L)
   [] c = "W302" -> W302(L) [] c = "W303" -> W303(L) [] c = "W304" -> W304(L)
   [] c = "W305" -> W305(L) [] c = "W306" -> W306(L) [] c = "W307" -> W307(L)
   [] c = "E401" -> E401(L) [] c = "W402" -> W402(L) [] c = "W403" -> W403(L)
   [] c = "W404" -> W404lo(L) [] c = "W501" -> W501(L) [] c = "W502" -> W502(L)
Hi(L, c) == CASE c = "W203" -> W203hi(L) [] c = "W404" -> W404hi(L) [] OTHER -> Lo(L, c)
\* which codes a `select' argument picks: a code, or its category letter
Selected(sel) == {c \in Codes : c \in sel \/ SubSeq(c, 1, 1) \in sel}
=============================================================================
