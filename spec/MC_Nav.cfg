SPECIFICATION Spec
CHECK_DEADLOCK FALSE
INVARIANT InverseLaws
INVARIANT TranslateSymmetric
INVARIANT NoTranslateWithoutIli
