------------------------------ MODULE Judge_C18 ------------------------------
(* Trace validation for C18: reports returned by wn.validate.validate()       *)
(* against WnValidate.                                                        *)
EXTENDS WnValidate, IOUtils, TLC
Recs == ndJsonDeserialize(IOEnv.TRACE_FILE)
VARIABLE i
Init == i \in 1..Len(Recs)
Next == UNCHANGED i
\* runs rows: <<<<select...>>, st, <<<<code, <<keys>>, <<<<key, type, target>>...>>>> ...>>>>
ReportOK(L, t) ==
  /\ t[2] = "ok"
  /\ {c[1] : c \in Rng(t[3])} = Selected(Rng(t[1]))
  /\ Len(t[3]) = Cardinality({c[1] : c \in Rng(t[3])})
BadCodes(L, t) == {c[1] : c \in {c \in Rng(t[3]) :
                     ~(Lo(L, c[1]) \subseteq Rng(c[2]) /\ Rng(c[2]) \subseteq Hi(L, c[1]))}}
\* relation checks: the context names a relation that the keyed source declares
\* (W404: that the keyed target lacks)
RelCodes == {"E401", "W402", "W403", "W501", "W502"}
CtxOK(L, c) ==
  \A x \in Rng(c[3]) :
     IF c[1] \in RelCodes THEN \E r \in Rng(AllRels(L)) : r[1] = x[1] /\ r[2] = x[2] /\ r[3] = x[3]
     ELSE IF c[1] = "W404"
     THEN \E r \in Unreciprocated(L) : r[3] = x[1] /\ Reverse(r[2]) = x[2] /\ r[1] = x[3]
     ELSE TRUE
BadCtx(L, t) == {c[1] : c \in {c \in Rng(t[3]) : ~CtxOK(L, c)}}
\* python -m wn validate: exit status 0 iff no selected check lists anything; the
\* report file names exactly the checks that list something
\* cli rows: <<select, exit status, <<codes in the report file>>>>
CliOK(L, t) ==
  LET sel == Selected(Rng(t[1]))
      must == {c \in sel : Lo(L, c) # {}}
      may == {c \in sel : Hi(L, c) # {}} IN
  /\ t[2] \in {0, 1}
  /\ must # {} => t[2] = 1
  /\ may = {} => t[2] = 0
  /\ t[2] = 1 => (must \subseteq Rng(t[3]) /\ Rng(t[3]) \subseteq may)
\* E204 / E401 reported  =>  add() rejects the lexicon
AddOK(L, r) == (E204(L) # {} \/ E401(L) # {}) => r.add # "ok"
\* known deviation (fixed): KeyError in W501 when a hypernym target is missing
DevW501KeyError(L, t) ==
  /\ t[2] = "exc:KeyError" /\ "W501" \in Selected(Rng(t[1]))
  /\ \E r \in Rng(L.ssrels) : r[2] = "hypernym" /\ r[3] \notin SynsetIds(L)
Fails(r) ==
  IF "timeout" \in DOMAIN r THEN {<<"Terminates", "-">>} ELSE
  LET L == r.lex IN
    {<<"ReportForSelectedChecks", t[1]>> : t \in {t \in Rng(r.runs) : ~ReportOK(L, t) /\ ~DevW501KeyError(L, t)}}
    \cup {<<"ExactItems", BadCodes(L, t)>> : t \in {t \in Rng(r.runs) : t[2] = "ok" /\ BadCodes(L, t) # {}}}
    \cup {<<"Context", BadCtx(L, t)>> : t \in {t \in Rng(r.runs) : t[2] = "ok" /\ BadCtx(L, t) # {}}}
    \cup (IF AddOK(L, r) THEN {} ELSE {<<"ErrorsMakeAddFail", r.add>>})
    \cup {<<"CommandLineExitStatus", t[1]>> : t \in {t \in Rng(r.cli) : ~CliOK(L, t)}}
Devs(r) ==
  IF "timeout" \in DOMAIN r THEN {} ELSE
  IF \E t \in Rng(r.runs) : DevW501KeyError(r.lex, t) THEN {"DevW501KeyError"} ELSE {}
Judge == LET r == Recs[i]  f == Fails(r)  d == Devs(r) IN
  /\ f = {} \/ PrintT(ToJson([k |-> "FAIL", id |-> r.id, c |-> f]))
  /\ d = {} \/ PrintT(ToJson([k |-> "DEV", id |-> r.id, d |-> d]))
=============================================================================
