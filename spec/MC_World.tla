------------------------------- MODULE MC_World -------------------------------
(* A fixed small world (two versions of lexicon a with the same identifiers,   *)
(* an extension x of a:1 that attaches senses, forms and relations to base     *)
(* entities, a French lexicon u sharing ILIs and requiring a:1, and an         *)
(* extension y of x) whose set of installed lexicons varies over every history *)
(* of add / remove.  The theorems behind C04, C10 and C12 are checked for      *)
(* every Wordnet configuration of Cfgs in every state.                         *)
EXTENDS WnQuery
VARIABLE inst
T == [
 lex |-> << <<"a:1", "a", "1", "en", "~", <<>>>>, <<"a:2", "a", "2", "en", "~", <<>>>>,
            <<"x:1", "x", "1", "en", "a:1", <<>>>>, <<"u:1", "u", "1", "fr", "~", <<"a:1", "zz:9">>>>,
            <<"y:1", "y", "1", "en", "x:1", <<>>>> >>,
 synsets |-> << <<"a:1", "a-s1", "n", "i1">>, <<"a:1", "a-s2", "n", "i2">>, <<"a:1", "a-s3", "n", "in">>,
                <<"a:2", "a-s1", "n", "i1">>, <<"a:2", "a-s2", "n", "i3">>,
                <<"x:1", "x-s1", "n", "i3">>, <<"y:1", "y-s1", "n", "">>,
                <<"u:1", "u-s1", "n", "i1">>, <<"u:1", "u-s2", "n", "i3">>, <<"u:1", "u-s3", "n", "i1">> >>,
 entries |-> << <<"a:1", "a-w1", "n", "cat">>, <<"a:2", "a-w1", "n", "cat">>,
                <<"x:1", "x-w1", "n", "lynx">>, <<"u:1", "u-w1", "n", "chat">> >>,
 senses |-> << <<"a:1", "a-w1-1", "a:1", "a-w1", "a:1", "a-s1", 0, 0>>,
               <<"a:1", "a-w1-2", "a:1", "a-w1", "a:1", "a-s2", 1, 127>>,
               <<"a:2", "a-w1-1", "a:2", "a-w1", "a:2", "a-s1", 0, 127>>,
               <<"x:1", "x-a-w1-3", "a:1", "a-w1", "a:1", "a-s1", 0, 127>>,
               <<"x:1", "x-w1-1", "x:1", "x-w1", "x:1", "x-s1", 0, 0>>,
               <<"y:1", "y-x-w1-2", "x:1", "x-w1", "y:1", "y-s1", 0, 127>>,
               <<"u:1", "u-w1-1", "u:1", "u-w1", "u:1", "u-s1", 0, 127>> >>,
 ssrels |-> << <<"a:1", "a:1", "a-s1", "hypernym", "a:1", "a-s2", "~", "~">>,
               <<"a:1", "a:1", "a-s2", "hyponym", "a:1", "a-s1", "~", "~">>,
               <<"a:2", "a:2", "a-s1", "hypernym", "a:2", "a-s2", "~", "~">>,
               <<"x:1", "a:1", "a-s2", "hypernym", "x:1", "x-s1", "~", "~">>,
               <<"x:1", "x:1", "x-s1", "also", "a:1", "a-s3", "t1", "~">>,
               <<"y:1", "x:1", "x-s1", "hypernym", "y:1", "y-s1", "~", "~">>,
               <<"u:1", "u:1", "u-s1", "similar", "u:1", "u-s2", "~", "~">> >>,
 srels |-> << <<"x:1", "a:1", "a-w1-1", "antonym", "x:1", "x-w1-1", "~", "~">> >>,
 sssrels |-> <<>>,
 forms |-> << <<"x:1", "a:1", "a-w1", "catz">> >>,
 tags |-> << <<"x:1", "a:1", "a-w1", "xtag">> >>,
 sexamples |-> << <<"x:1", "a:1", "a-w1-1", "x example">> >>,
 yexamples |-> << <<"a:1", "a:1", "a-s1", "a example">>, <<"x:1", "a:1", "a-s1", "x example">> >>,
 defs |-> << <<"a:1", "a:1", "a-s1", "a def">>, <<"x:1", "a:1", "a-s1", "x def">>,
             <<"x:1", "a:1", "a-s2", "x def 2">> >>,
 counts |-> << <<"x:1", "a:1", "a-w1-1", 3>> >> ]
All == {l[1] : l \in Rng(T.lex)}
I == Rng(inst)
Init == inst = <<>>
Add(s) == s \notin I /\ (BaseOf(T, s) = "~" \/ BaseOf(T, s) \in I) /\ inst' = Append(inst, s)
Remove(s) == s \in I /\ inst' = SelectSeq(inst, LAMBDA z : z \notin ExtsOfSet(T, I, {s}))
Next == \E s \in All : Add(s) \/ Remove(s)
Spec == Init /\ [][Next]_inst

C(l, g, e) == [lexicon |-> l, lang |-> g, expand |-> e]
Cfgs == {C("~", "~", "~"), C("a:1", "~", "~"), C("a:1 x:1", "~", "-"), C("x:1", "~", "~"),
         C("u:1", "~", "~"), C("u:1", "~", "-"), C("a:1 a:2", "~", "~"), C("~", "en", "~"),
         C("a:2", "~", "u:1"), C("u:1", "~", "a:*"), C("a", "~", "~")}
Live(cfg) == ~ConstructorFails(T, inst, cfg)
W(cfg) == Wn(T, inst, cfg)
Scope(w, x) == IF w.default THEN Family(T, I, x[1]) ELSE w.S
IsPh(y) == y[1] = "*"

(* ---- C04 ---- *)
\* everything a wordnet returns about an entity lies in the selection (default
\* mode: in the family of the entity's lexicon); borrowed targets are resolved
\* back into it or are placeholders
InScope == \A cfg \in Cfgs : Live(cfg) =>
  LET w == W(cfg) IN
  /\ \A y \in SynsetsOf(w) : \A p \in SynPairs(w, y, y[1], {}) : IsPh(p[2]) \/ p[2][1] \in Scope(w, y)
  /\ \A e \in WordsOf(w) : \A r \in WordSenseRows(w, e) : r[1] \in Scope(w, e)
  /\ \A y \in SynsetsOf(w) : \A r \in SynsetSenseRows(w, y) : r[1] \in Scope(w, y)
  /\ \A s \in SensesOf(w) : \A t \in SenseRelated(w, s, {}) : t[1] \in Scope(w, s)
\* the results of a restricted wordnet do not change when a lexicon outside the
\* selection and the expand set (with its extensions) is added or removed
Results(w) == [syn |-> [y \in SynsetsOf(w) |-> <<SynPairs(w, y, y[1], {}), SynsetSenseRows(w, y)>>],
               wrd |-> [e \in WordsOf(w) |-> <<WordSenseRows(w, e), VisibleForms(w, e), VisibleTags(w, e)>>],
               sen |-> [s \in SensesOf(w) |-> <<OwnSenseRows(w, s, {}), TextRows(w, T.sexamples, s),
                                                TextRows(w, T.counts, s)>>],
               txt |-> [y \in SynsetsOf(w) |-> <<FirstDef(w, y), TextRows(w, T.yexamples, y)>>]]
Insensitive ==
  [][\A cfg \in Cfgs \ {C("~", "~", "~"), C("a", "~", "~"), C("~", "en", "~")} :
       LET changed == (Rng(inst) \ Rng(inst')) \cup (Rng(inst') \ Rng(inst))
           w0 == Wn(T, inst, cfg)
           w1 == Wn(T, inst', cfg) IN
         (~ConstructorFails(T, inst, cfg) /\ ~ConstructorFails(T, inst', cfg)
            /\ changed \cap (w0.S \cup w0.E \cup w1.S \cup w1.E) = {})
           => (w1.S = w0.S /\ w1.E = w0.E /\ Results(w1) = Results(w0))]_inst

(* ---- C10 ---- *)
\* a sense is among the senses of its word and of its synset whenever those are
\* in scope; translation is symmetric and needs a real ILI
InverseLaws == \A cfg \in Cfgs : Live(cfg) =>
  LET w == W(cfg) IN
  \A s \in SensesOf(w) :
     /\ DeclWord(w, s)[1] \in Scope(w, s) =>
          \E r \in WordSenseRows(w, DeclWord(w, s)) : <<r[1], r[2]>> = s
     /\ DeclSynset(w, s)[1] \in Scope(w, s) =>
          \E r \in SynsetSenseRows(w, DeclSynset(w, s)) : <<r[1], r[2]>> = s
TranslateSymmetric ==
  LET w == W(C("~", "~", "~")) IN
  \A y, z \in Synsets(w) :
     (z \in Translate(w, y, z[1])) <=> (y \in Translate(w, z, y[1]))
NoTranslateWithoutIli ==
  LET w == W(C("~", "~", "~")) IN
  \A y \in Synsets(w) : ~HasIli(w, y) => \A s \in I : Translate(w, y, s) = {}

(* ---- C12 ---- *)
ExpandEmptyIsOwn == \A cfg \in Cfgs : (Live(cfg) /\ cfg.expand = "-") =>
  \A y \in SynsetsOf(W(cfg)) : SynPairs(W(cfg), y, y[1], {}) = OwnPairs(W(cfg), y, {})
DefaultExpandIsInstalledDeps == \A cfg \in Cfgs : (Live(cfg) /\ cfg.expand = "~" /\ ~IsDefault(cfg)) =>
  /\ W(cfg).E = DeclaredDeps(T, inst, cfg) \cap I
  /\ Warned(T, inst, cfg) = DeclaredDeps(T, inst, cfg) \ I
BorrowedNeedIli == \A cfg \in Cfgs : Live(cfg) =>
  LET w == W(cfg) IN
  \A y \in SynsetsOf(w) : \A p \in ExpandedPairs(w, y, y[1], {}) :
     /\ HasIli(w, y) /\ HasIli(w, TargetOf(p[1]))
     /\ IliOf(w, p[2]) = IliOf(w, TargetOf(p[1]))
     /\ p[1][1] \in w.E /\ p[1][5] \in w.E
     /\ IsPh(p[2]) <=> ~\E z \in Synsets(w) : z[1] \in LexIds(w, y[1]) /\ HasIli(w, z)
                                               /\ IliOf(w, z) = IliOf(w, p[2])
=============================================================================
