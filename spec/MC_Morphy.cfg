CONSTANT MaxWords = 3
INIT Init
NEXT Next
CHECK_DEADLOCK FALSE
INVARIANT SoundInit
INVARIANT CompleteInit
INVARIANT UninitHasOriginal
INVARIANT NoFullSuppletion
INVARIANT SatellitesShareRules
