--------------------------- MODULE WnTaxonomy ---------------------------
(* Graph-theoretic meaning of wn.taxonomy on an arbitrary hypernym graph.   *)
(* A graph G is a record                                                     *)
(*    [n |-> number of synsets 1..n,                                        *)
(*     hyp  |-> set of <<x,y>>: x declares (instance_)hypernym y,           *)
(*     hypo |-> set of <<x,y>>: x declares (instance_)hyponym y,            *)
(*     pos  |-> sequence of parts of speech]                                *)
(* The simulated root is node 0.  Depths, distances and similarity          *)
(* arguments are exact naturals / rationals <<num, den>>.                   *)
EXTENDS Naturals, Integers, Sequences, FiniteSets, TLC

Nodes(G) == 1..G.n
Root == 0
Hyp(G, x) == {y \in Nodes(G) : <<x, y>> \in G.hyp}
Hypo(G, x) == {y \in Nodes(G) : <<x, y>> \in G.hypo}
Last(s) == s[Len(s)]
Rng(s) == {s[k] : k \in DOMAIN s}
SeqMin(S) == CHOOSE m \in S : \A k \in S : m <= k
SeqMax(S) == CHOOSE m \in S : \A k \in S : m >= k
FoldPos(p) == IF p = "s" THEN "a" ELSE p

(* ---- maximal simple hypernym chains --------------------------------- *)
RECURSIVE Ext(_, _, _)
Ext(G, p, vis) ==
  LET nxt == Hyp(G, Last(p)) \ vis IN
    IF nxt = {} THEN {p}
    ELSE UNION {Ext(G, Append(p, y), vis \cup {y}) : y \in nxt}

\* all maximal simple hypernym chains leaving x (x itself excluded)
PathsRaw(G, x) == UNION {Ext(G, <<t>>, {x, t}) : t \in Hyp(G, x) \ {x}}
\* (tabulated once per graph by Prep below)
Paths(G, x) == G.P[x]

\* the same with the simulated root appended to every chain
PathsSim(G, x, sim) ==
  IF ~sim THEN Paths(G, x)
  ELSE IF Paths(G, x) = {} THEN {<<Root>>}
       ELSE {Append(p, Root) : p \in Paths(G, x)}

PathsSelf(G, x, sim) ==
  IF PathsSim(G, x, sim) = {} THEN {<<x>>}
  ELSE {<<x>> \o p : p \in PathsSim(G, x, sim)}

Lens(S) == {Len(p) : p \in S}
MinDepth(G, x, sim) == IF PathsSim(G, x, sim) = {} THEN 0 ELSE SeqMin(Lens(PathsSim(G, x, sim)))
MaxDepth(G, x, sim) == IF PathsSim(G, x, sim) = {} THEN 0 ELSE SeqMax(Lens(PathsSim(G, x, sim)))

(* ---- reachability, ancestors, cycles -------------------------------- *)
RECURSIVE ReachFrom(_, _, _)
ReachFrom(G, frontier, seen) ==
  LET nxt == (UNION {Hyp(G, y) : y \in frontier}) \ seen IN
    IF nxt = {} THEN seen ELSE ReachFrom(G, nxt, seen \cup nxt)
\* proper ancestors (x itself only when it lies on a cycle)
ReachRaw(G, x) == ReachFrom(G, {x}, {})
Reach(G, x) == IF x = Root THEN {} ELSE G.R[x]
Anc(G, x, sim) == {x} \cup Reach(G, x) \cup (IF sim THEN {Root} ELSE {})
Cyclic(G) == G.cyc

\* BFS distance over hypernym edges; -1 when unreachable
RECURSIVE Bfs(_, _, _, _, _)
Bfs(G, frontier, seen, d, y) ==
  IF y \in frontier THEN d
  ELSE LET nxt == (UNION {Hyp(G, z) : z \in frontier}) \ seen IN
         IF nxt = {} THEN -1 ELSE Bfs(G, nxt, seen \cup nxt, d + 1, y)
DistRaw(G, x, y) == Bfs(G, {x}, {x}, 0, y)
Dist(G, x, y) == IF x = y THEN 0 ELSE IF x = Root \/ y = Root THEN -1 ELSE G.D[x][y]

\* Prep(g): the graph with its path sets, ancestor sets and distances
\* tabulated (TLCEval forces TLC to compute each table once).
Prep(g) ==
  LET g0 == [n |-> g.n, hyp |-> g.hyp, hypo |-> g.hypo, pos |-> g.pos] IN
    [n |-> g.n, hyp |-> g.hyp, hypo |-> g.hypo, pos |-> g.pos,
     P |-> TLCEval([x \in 1..g.n |-> PathsRaw(g0, x)]),
     R |-> TLCEval([x \in 1..g.n |-> ReachRaw(g0, x)]),
     D |-> TLCEval([x \in 1..g.n |-> [y \in 1..g.n |-> DistRaw(g0, x, y)]]),
     cyc |-> TLCEval(\E x \in 1..g.n : x \in ReachRaw(g0, x))]

IsRoot(G, x) == Hyp(G, x) = {}
\* distance to the simulated root.  Reading A (what "a fake root appended to
\* every hypernym path" means): one more than the shortest maximal chain.
DistRootA(G, x) == MinDepth(G, x, FALSE) + 1
\* Reading B ("a fake root joins all roots"): one more than the distance to
\* the nearest genuine root; -1 if none is reachable.  A = B on every DAG.
DistRootB(G, x) ==
  LET ds == {Dist(G, x, r) : r \in {r \in Anc(G, x, FALSE) : IsRoot(G, r)}} IN
    IF ds = {} THEN -1 ELSE SeqMin(ds) + 1

DistTo(G, x, c, readingB) ==
  IF x = c THEN 0
  ELSE IF c = Root THEN (IF readingB THEN DistRootB(G, x) ELSE DistRootA(G, x))
  ELSE Dist(G, x, c)

Common(G, a, b, sim) == Anc(G, a, sim) \cap Anc(G, b, sim)

\* length of the shortest path a .. c .. b through a common hypernym c;
\* -1 when there is none
SPLenR(G, a, b, sim, readingB) ==
  IF a = b THEN 0
  ELSE LET cs == {c \in Common(G, a, b, sim) :
                     DistTo(G, a, c, readingB) >= 0 /\ DistTo(G, b, c, readingB) >= 0}
       IN IF cs = {} THEN -1
          ELSE SeqMin({DistTo(G, a, c, readingB) + DistTo(G, b, c, readingB) : c \in cs})
SPLen(G, a, b, sim) == SPLenR(G, a, b, sim, FALSE)
\* the admissible lengths: exact on DAGs, either reading of the fake root on
\* cyclic graphs
SPLens(G, a, b, sim) ==
  IF sim /\ Cyclic(G) THEN {SPLenR(G, a, b, sim, FALSE), SPLenR(G, a, b, sim, TRUE)}
  ELSE {SPLenR(G, a, b, sim, FALSE)}

(* ---- lowest common hypernyms ---------------------------------------- *)
\* depth of a (common) hypernym c: the longest chain above it
DepthA(G, c, sim) == IF c = Root THEN 0 ELSE MaxDepth(G, c, sim)
\* second reading, meaningful on cyclic graphs only: the longest remainder
\* after c along the maximal simple chains that start at a or b
DepthB(G, a, b, c, sim) ==
  LET ps == PathsSelf(G, a, sim) \cup PathsSelf(G, b, sim) IN
    SeqMax({Len(p) - k : <<p, k>> \in {<<p, k>> \in ps \X (1..(G.n + 2)) :
                                          k <= Len(p) /\ p[k] = c}})
ArgMax(S, f(_)) == {c \in S : \A d \in S : f(c) >= f(d)}
LCH_A(G, a, b, sim) == LET D(c) == DepthA(G, c, sim) IN ArgMax(Common(G, a, b, sim), D)
LCH_B(G, a, b, sim) ==
  IF a = b THEN {a}
  ELSE LET D(c) == DepthB(G, a, b, c, sim) IN ArgMax(Common(G, a, b, sim), D)
\* the admissible answers of lowest_common_hypernyms
LCHs(G, a, b, sim) ==
  IF Cyclic(G) THEN {LCH_A(G, a, b, sim), LCH_B(G, a, b, sim)}
  ELSE {LCH_A(G, a, b, sim)}

(* ---- witness predicate for shortest_path ----------------------------- *)
Linked(G, x, y) ==
  \/ <<x, y>> \in G.hyp \/ <<y, x>> \in G.hyp
  \/ (x = Root /\ y # Root /\ (Cyclic(G) \/ IsRoot(G, y)))
  \/ (y = Root /\ x # Root /\ (Cyclic(G) \/ IsRoot(G, x)))
\* p is the list returned for shortest_path(a, b): a itself is not included
IsHypPath(G, a, b, p) ==
  /\ (Len(p) = 0) <=> (a = b)
  /\ Len(p) > 0 => /\ Last(p) = b
                   /\ Linked(G, a, p[1])
                   /\ \A k \in 1..(Len(p) - 1) : Linked(G, p[k], p[k + 1])

(* ---- roots, leaves, taxonomy depth ----------------------------------- *)
OfPos(G, pos) == {x \in Nodes(G) : FoldPos(G.pos[x]) = FoldPos(pos)}
Roots(G, pos) == {x \in OfPos(G, pos) : Hyp(G, x) = {}}
Leaves(G, pos) == {x \in OfPos(G, pos) : Hypo(G, x) = {}}
TaxDepth(G, pos) ==
  LET ds == {MaxDepth(G, x, FALSE) : x \in OfPos(G, pos)} IN
    IF ds = {} THEN 0 ELSE SeqMax(ds)

\* Transcription of the algorithm of taxonomy_depth() with its `seen'
\* shortcut (synsets visited in the order `ord'); used to characterise the
\* known deviation on cyclic graphs and checked to agree with TaxDepth on
\* every acyclic graph of the bound.
RECURSIVE TaxDepthAlgo(_, _, _, _)
TaxDepthAlgo(G, ord, seen, depth) ==
  IF ord = <<>> THEN depth
  ELSE LET x == Head(ord)
           ps == Paths(G, x) IN
         IF Hyp(G, x) \subseteq seen \/ ps = {}
         THEN TaxDepthAlgo(G, Tail(ord), seen, depth)
         ELSE TaxDepthAlgo(G, Tail(ord), seen \cup UNION {Rng(p) : p \in ps},
                           IF SeqMax(Lens(ps)) > depth THEN SeqMax(Lens(ps)) ELSE depth)

(* ---- similarity: exact rationals <<num, den>> ------------------------ *)
\* path similarity 1/(d+1); <<0,1>> when unconnected
PathSims(G, a, b, sim) ==
  {IF d < 0 THEN <<0, 1>> ELSE <<1, d + 1>> : d \in SPLens(G, a, b, sim)}
\* Wu-Palmer: 2k/(i+j+2k) for every admissible lowest common hypernym c, with
\* k = depth of c counted in nodes.  simulate_root: both readings of whether
\* the fake root counts in k are admissible (the guide does not say).
WupOf(G, a, b, c, sim, rb, withRoot) ==
  LET i == SPLenR(G, a, c, sim, rb)
      j == SPLenR(G, b, c, sim, rb)
      k == (IF c = Root THEN 0 ELSE MaxDepth(G, c, FALSE)) + 1
           + (IF withRoot /\ c # Root THEN 1 ELSE 0) IN
    <<2 * k, i + j + 2 * k>>
WupSet(G, a, b, sim) ==
  {WupOf(G, a, b, t[1], sim, t[2], t[3]) :
      t \in {t \in (UNION LCHs(G, a, b, sim))
                    \X (IF sim /\ Cyclic(G) THEN BOOLEAN ELSE {FALSE})
                    \X (IF sim THEN BOOLEAN ELSE {FALSE}) :
               /\ SPLenR(G, a, t[1], sim, t[2]) >= 0
               /\ SPLenR(G, b, t[1], sim, t[2]) >= 0}}
\* Leacock-Chodorow argument (d+1)/(2*maxdepth)
LchArgs(G, a, b, sim, md) ==
  {<<d + 1, 2 * md>> : d \in {d \in SPLens(G, a, b, sim) : d >= 0}}
PosCompatible(G, a, b) == FoldPos(G.pos[a]) = FoldPos(G.pos[b])

=============================================================================
