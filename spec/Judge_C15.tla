---------------------------- MODULE Judge_C15 ----------------------------
(* Trace validation for C15: weights returned by wn.ic.compute (floats       *)
(* converted to exact rationals by the harness) against WnIC.               *)
EXTENDS WnIC, Json, IOUtils
Recs == ndJsonDeserialize(IOEnv.TRACE_FILE)
VARIABLE i
Init == i \in 1..Len(Recs)
Next == UNCHANGED i

GraphOf(r) == Prep([n |-> r.g.n,
               hyp |-> {<<e[1], e[2]>> : e \in Rng(r.g.hyp)},
               hypo |-> {<<e[1], e[2]>> : e \in Rng(r.g.hypo)},
               pos |-> r.g.pos])
Corp(r, ci) == r.g.corpora[ci + 1]
\* meta rows: <<ci, st, keys>>
MetaOK(o) == \A t \in Rng(o.meta) : t[2] = "ok" /\ Rng(t[3]) = IcPos
\* tot rows: <<ci, pos, st, num, den>>
TotalOK(G, r, t) ==
  LET C == Corp(r, t[1]) IN
    t[3] = "ok" /\ REq(<<t[4], t[5]>>, <<IcTotal(G, r.g.words, C, t[2]), Scale(r.g.words, C)>>)
\* freq rows: <<ci, pos, synset, st, num, den>>
KeysOK(G, o) == \A t \in Rng(o.meta) : \A pos \in IcPos :
  {u[3] : u \in {u \in Rng(o.freq) : u[1] = t[1] /\ u[2] = pos}}
     = {x \in Nodes(G) : FoldPos(G.pos[x]) = pos}
WeightOK(G, r, t) ==
  LET C == Corp(r, t[1]) IN
    t[4] = "ok" /\ REq(<<t[5], t[6]>>, <<IcWeight(G, r.g.words, C, t[2], t[3]), Scale(r.g.words, C)>>)
DevIcCountedPerPath(G, r, t) ==
  LET C == Corp(r, t[1]) IN
    /\ ~WeightOK(G, r, t) /\ t[4] = "ok"
    /\ REq(<<t[5], t[6]>>, <<IcWeightPerPath(G, r.g.words, C, t[2], t[3]), Scale(r.g.words, C)>>)
\* consequences, on the observed values
MonotoneOK(G, o) == \A t, u \in Rng(o.freq) :
  (t[1] = u[1] /\ t[2] = u[2] /\ u[3] \in Hyp(G, t[3]) /\ t[4] = "ok" /\ u[4] = "ok")
     => RLeq(<<t[5], t[6]>>, <<u[5], u[6]>>)
\* prob rows: <<ci, synset, pst, pnum, pden, ist, inum, iden>> (inum/iden = exp(-IC))
ProbOK(G, r, o) == \A t \in Rng(o.prob) :
  /\ t[3] = "ok" /\ t[4] > 0 /\ t[4] <= t[5]
  /\ t[6] = "ok" /\ REq(<<t[4], t[5]>>, <<t[7], t[8]>>)
  /\ \E u \in Rng(o.freq), v \in Rng(o.tot) :
        /\ u[1] = t[1] /\ u[3] = t[2] /\ v[1] = t[1] /\ v[2] = u[2]
        /\ REq(<<t[4], t[5]>>, <<u[5] * v[5], u[6] * v[4]>>)
DevProbAbove1(G, r, o) == \E t \in Rng(o.prob) : t[3] = "ok" /\ t[4] > t[5]

\* load(): <<fi, st, keys, tot <<pos, st, num, den>>, w <<pos, synset, st, num, den>>>>
LoadOK(G, r, t) ==
  LET rows == r.g.icfiles[t.fi + 1].rows IN
  /\ t.st = "ok" /\ Rng(t.keys) = IcPos
  /\ \A u \in Rng(t.tot) : u[2] = "ok" /\ REq(<<u[3], u[4]>>, <<LoadTotal(G, rows, u[1]), 1>>)
  /\ \A pos \in IcPos : {u[2] : u \in {u \in Rng(t.w) : u[1] = pos}}
                             = {x \in Nodes(G) : FoldPos(G.pos[x]) = pos}
  /\ \A u \in Rng(t.w) : u[3] = "ok" /\ REq(<<u[4], u[5]>>, <<LoadWeight(G, rows, u[1], u[2]), 1>>)
Cl(ok, name) == IF ok THEN {} ELSE {name}
AnyPerPath(G, r) == \E t \in Rng(r.c15.freq) : DevIcCountedPerPath(G, r, t)
Fails(r) ==
  IF "timeout" \in DOMAIN r THEN {"Terminates"} ELSE
  LET G == GraphOf(r)  o == r.c15 IN
     Cl(MetaOK(o), "ComputeReturns")
     \cup Cl(\A t \in Rng(o.tot) : TotalOK(G, r, t), "Conserved")
     \cup Cl(KeysOK(G, o), "SynsetKeys")
     \cup Cl(\A t \in Rng(o.freq) : WeightOK(G, r, t) \/ DevIcCountedPerPath(G, r, t), "CountedOnce")
     \cup Cl(MonotoneOK(G, o), "Monotone")
     \cup Cl(ProbOK(G, r, o) \/ (AnyPerPath(G, r) /\ DevProbAbove1(G, r, o)), "Probability")
     \cup Cl(\A t \in Rng(o.load) : LoadOK(G, r, t), "LoadWeightsFile")
Devs(r) ==
  IF "timeout" \in DOMAIN r THEN {} ELSE
  LET G == GraphOf(r) IN
    IF AnyPerPath(G, r) THEN {"DevIcCountedPerPath"} ELSE {}
Judge == LET r == Recs[i]  f == Fails(r)  d == Devs(r) IN
  /\ f = {} \/ PrintT(ToJson([k |-> "FAIL", id |-> r.id, c |-> f]))
  /\ d = {} \/ PrintT(ToJson([k |-> "DEV", id |-> r.id, d |-> d]))
=============================================================================
