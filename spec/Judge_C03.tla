------------------------------ MODULE Judge_C03 ------------------------------
(* Trace validation for C03: the file written by wn.export() for version ev,     *)
(* loaded back, against Project(document, ev); order of relations and the       *)
(* syntactic representation of frame-sense links (entry-level frames, lexicon-   *)
(* level frames, subcat) are not part of the comparison, the links are.         *)
EXTENDS WnLmf, Json, IOUtils, TLC
Recs == ndJsonDeserialize(IOEnv.TRACE_FILE)
VARIABLE i
Init == i \in 1..Len(Recs)
Next == UNCHANGED i
\* frame-sense links and frame ids of a document given as sets of rows
FrameLinksS(P) ==
  UNION {IF f[6] = <<>> THEN {<<f[1], s[5], f[5]>> : s \in {s \in P.sense : s[1] = f[1] /\ s[2] = f[2]}}
         ELSE {<<f[1], sid, f[5]>> : sid \in Rng(f[6])} : f \in P.eframe}
  \cup UNION {{<<f[1], sid, f[4]>> : sid \in Rng(f[5])} : f \in P.lframe}
  \cup UNION {{<<s[1], s[5], f[4]>> : f \in {f \in P.lframe : f[1] = s[1] /\ f[3] \in Rng(s[10])}} : s \in P.sense}
\* (ids of frames that at least one sense uses; an unused frame declaration is
\* not among the things the property lists)
FrameIdsS(P) == {<<f[1], f[3], f[4]>> : f \in {f \in P.lframe : f[3] # "~" /\
                    (f[5] # <<>> \/ \E s \in P.sense : s[1] = f[1] /\ f[3] \in Rng(s[10]))}}
\* comparison form: relation order dropped, frame syntax dropped
Norm(P) ==
  [lex |-> P.lex, req |-> P.req, entry |-> P.entry, form |-> P.form, pron |-> P.pron, tag |-> P.tag,
   sense |-> {Put(r, 10, <<>>) : r \in P.sense},
   srel |-> {Put(r, 4, 0) : r \in P.srel}, sex |-> P.sex, count |-> P.count,
   synset |-> {Put(r, 9, <<>>) : r \in P.synset},
   def |-> P.def, yrel |-> {Put(r, 3, 0) : r \in P.yrel}, yex |-> P.yex]
NormTables == {"lex", "req", "entry", "form", "pron", "tag", "sense", "srel", "sex", "count",
               "synset", "def", "yrel", "yex"}
NDiff(A, B) == {t \in NormTables : A[t] # B[t]}
\* members: a declared order must come back; none declared: anything
MembersOK(src, got) == \A y \in src.synset : y[9] # <<>> =>
   \E z \in got.synset : z[1] = y[1] /\ z[4] = y[4] /\ z[9] = y[9]
Expected(r, t) == Project(r.src, t.v)
ExportOK(r, t) ==
  LET E == Expected(r, t)  G == AsSets(t.got) IN
  /\ t.st = "ok" /\ Norm(G) = Norm(E)
  /\ FrameLinksS(G) = FrameLinksS(AsSets(r.src))
  /\ (Old(t.v) \/ FrameIdsS(G) = FrameIdsS(AsSets(r.src)))
  /\ (Old(t.v) \/ MembersOK(E, G))
\* known deviation (fixed): a proposed ILI without ILIDefinition exported as ili=""
LostProposed(E, G) == Norm(G) = [Norm(E) EXCEPT !.synset =
    {IF y[5] = "in" /\ y[11] = "~" THEN Put(y, 5, "") ELSE y : y \in @}]
DevProposedIliWithoutDefinitionLost(r, t) ==
  LET E == Expected(r, t)  G == AsSets(t.got) IN
  /\ t.st = "ok" /\ Norm(G) # Norm(E) /\ LostProposed(E, G)
\* known deviation: links to frames that have no id (lexicons that came from a
\* WN-LMF 1.0 document) cannot be written as subcat references and are dropped
\* from 1.1 on - exactly those, nothing else
LinksWithId(P) ==
  UNION {{<<f[1], sid, f[4]>> : sid \in Rng(f[5])} : f \in {f \in P.lframe : f[3] # "~"}}
  \cup UNION {{<<s[1], s[5], f[4]>> : f \in {f \in P.lframe : f[1] = s[1] /\ f[3] # "~" /\ f[3] \in Rng(s[10])}} : s \in P.sense}
DevIdlessFrameLinksNotExported(r, t) ==
  LET E == Expected(r, t)  G == AsSets(t.got)  S == AsSets(r.src) IN
  /\ t.st = "ok" /\ ~Old(t.v) /\ Norm(G) = Norm(E)
  /\ FrameLinksS(G) # FrameLinksS(S) /\ FrameLinksS(G) = LinksWithId(S)
  /\ (Old(t.v) \/ MembersOK(E, G))
\* re-import: observationally identical when the version can express the lexicon
NoFrames(P) == [t \in NormTables |-> Norm(P)[t]]
\* (WN-LMF 1.0 has no `members': a declared member order is observable and cannot
\* come back from a 1.0 export)
IdentityClaimed(r, t) ==
  ~Old(t.v) \/ (/\ NoFrames(Project(r.src, t.v)) = NoFrames(AsSets(r.src))
                /\ \A y \in Rng(r.src.synset) : y[9] = <<>>)
ReimportOK(r, t) == IdentityClaimed(r, t) => (t.readd = "ok" /\ t.api_digest = r.api_digest)
Fails(r) ==
  IF "timeout" \in DOMAIN r THEN {<<"Terminates", "-", "-">>} ELSE
  IF r.st # "ok" THEN {<<"AddSucceeds", r.st, "-">>} ELSE
  {<<"ExportedEqualsDocument", t.v,
     IF t.st = "ok" THEN NDiff(Norm(AsSets(t.got)), Norm(Expected(r, t))) ELSE {t.st}>> :
       t \in {t \in Rng(r.exports) : ~ExportOK(r, t) /\ ~DevProposedIliWithoutDefinitionLost(r, t)
                                      /\ ~DevIdlessFrameLinksNotExported(r, t)}}
  \cup {<<"ReimportObservationallyIdentical", t.v, t.readd>> :
       t \in {t \in Rng(r.exports) : ExportOK(r, t) /\ ~ReimportOK(r, t)}}
Devs(r) ==
  IF "timeout" \in DOMAIN r \/ r.st # "ok" THEN {} ELSE
  (IF \E t \in Rng(r.exports) : ~ExportOK(r, t) /\ DevIdlessFrameLinksNotExported(r, t)
   THEN {"DevIdlessFrameLinksNotExported"} ELSE {})
  \cup (IF \E t \in Rng(r.exports) : ~ExportOK(r, t) /\ ~DevIdlessFrameLinksNotExported(r, t)
                                     /\ DevProposedIliWithoutDefinitionLost(r, t)
        THEN {"DevProposedIliWithoutDefinitionLost"} ELSE {})
Judge == LET r == Recs[i]  f == Fails(r)  d == Devs(r) IN
  /\ f = {} \/ PrintT(ToJson([k |-> "FAIL", id |-> r.id, c |-> f]))
  /\ d = {} \/ PrintT(ToJson([k |-> "DEV", id |-> r.id, d |-> d]))
=============================================================================
